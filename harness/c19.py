"""C19 -- result caching is transparent and survives interruption.

Tie to the source:
  (1) facts regenerated from src/mxlpy/parallel.py + src/mxlpy/scan.py into
      coq/cachefs/GenCacheFacts.v: the SAVE PROTOCOL of _pickle_save (direct write into the final
      path / temporary file in the same directory + os.replace / replace before the close), the
      DEFAULT NAME FUNCTION _pickle_name (f"{k}.p" | f"{k!r}.p" | f"{hash(k)}.p"), the shape of
      _load_or_run, _pickle_load, the Cache defaults, and the wiring of the cache through
      parallelise and the four scan functions.  PropsC19.v pins them against
      coq/cachefs/ExpectedFacts.v (hand-maintained switch: which name function the tree is expected
      to carry -- NameStr = history, before fixes/C19-name-fn.diff (/repo 212c2b0); NameRepr = the
      tree now = snapshot with the recorded finding C19-slash-in-key; NameReprEsc = after
      fixes/C19-slash-in-key.diff; tools/c19_switch.py slash snapshot|repaired <commit>); plus the shape of
      the Cache dataclass (no state of its own) and the name _load_or_run hands to save_fn
      (gen_cache_object / gen_save_name, pinned by C19_object_facts_pinned);
  (2) correspondence by FAULT INJECTION on the real code: harness/c19_driver.py (its own
      interpreter, one forked child per run) kills a caching run at every instant at which the
      directory can differ -- before/after every open/close/replace and after every byte of a
      result file -- then reruns.  The directory content after the kill, the rerun's outcome, its
      number of fn calls and the directory after it are compared with what the Gallina model
      (evaluated by vm_compute inside Coq with the regenerated protocol fact) predicts -- with
      unbuffered file objects (every byte offset) and with file objects that keep the bytes in user
      space until close() (the model's flush policies pol_through / pol_buffered); the file name
      the implementation uses for every key is compared with the Gallina model of str()/repr();
  (3) an independent oracle judges the PROPERTY on the implementation: cached == uncached ==
      own evaluation of the function, second run makes no call and writes nothing, every rerun
      after every kill returns the uncached results for every key (then again without calls);
  (4) SESSIONS: several runs in one process with ONE Cache object (sequential then parallel, parallel
      then parallel, growing / overlapping key sets): every run returns the uncached results and evaluates
      fn exactly on the keys whose files are not yet on disk (oracle), and the whole session is compared
      with the small-step model, which has no object state (facts: shape of the Cache dataclass);
  (5) CUSTOM (name_fn, save_fn, load_fn) triples, also name-sensitive ones (format chosen from the suffix;
      pandas to_pickle/read_pickle on *.pkl.gz; a writer that stamps / records the name it was handed):
      transparency, repetition from disk, and "save_fn is handed exactly the name load_fn gets later"
      (fact: which name _load_or_run hands to save_fn);
  (6) keys whose repr contains a path separator / '%' / '..' / NUL (second switch value of ExpectedFacts.v:
      NameRepr = snapshot with the recorded finding C19-slash-in-key, NameReprEsc = after
      fixes/C19-slash-in-key.diff);
  (7) the LIFE of a Cache object and its directory (facts gen_lookup / gen_mkdir, pinned by C19_life_facts_pinned: _load_or_run
      decides by file.exists() alone, parallelise creates cache.tmp_dir as its first statement): results that are None / falsy
      through the repeated-run oracle and the kill points; sessions in which the cache directory is removed (shutil.rmtree),
      cache.tmp_dir re-assigned to a directory that does not exist, a new object constructed, the object copied through pickle,
      judged by the oracle and compared event by event with the big-step model coq/cachefs/CacheLife.v; scan.steady_state run,
      repeated, wiped, run again with one Cache object.
"""

from __future__ import annotations

import ast
import json
import os
import pickle
import shutil
import subprocess
import sys
import time
from concurrent.futures import ThreadPoolExecutor
from pathlib import Path
from typing import Any

from harness import common
from harness.common import Run, clist, cn, cnat, cz

AREA = "cachefs"
PROPS = "PropsC19.v"
PROP = "C19"

# ---------------------------------------------------------------------------------------
# (1) fact extraction (fail-closed)
# ---------------------------------------------------------------------------------------

_NAME_KINDS = {
    "return f'{k}.p'": "NameStr",
    "return f'{k!r}.p'": "NameRepr",
    "return f'{hash(k)}.p'": "NameHash",
    "name = repr(k).replace('%', '%25').replace('/', '%2F')\nreturn f'{name}.p'": "NameReprEsc",
}

# _load_or_run as seeded/C19-6 wrote it: save_fn is handed a temporary name, the file is renamed afterwards
_LOAD_OR_RUN_TEMP = (
    "k, v = inp\nif cache is None:\n    res = fn(v)\nelse:\n    file = cache.tmp_dir / cache.name_fn(k)\n"
    "    if file.exists():\n        return (k, cast(Tout, cache.load_fn(file)))\n    res = fn(v)\n"
    "    tmp = file.with_name(f'{file.name}.{os.getpid()}.tmp')\n    cache.save_fn(tmp, res)\n    os.replace(tmp, file)\nreturn (k, res)"
)
_CACHE_FIELDS = ["tmp_dir", "name_fn", "load_fn", "save_fn"]
# _load_or_run + helper as seeded/C19-7 wrote them: "nothing usable" is signalled by None, so a stored None is a miss
_LOAD_OR_RUN_NONE = (
    "k, v = inp\nif cache is None:\n    return (k, fn(v))\nfile = cache.tmp_dir / cache.name_fn(k)\n"
    "res = cast(Tout | None, _try_load(file, cache))\nif res is None:\n    res = fn(v)\n    cache.save_fn(file, res)\nreturn (k, res)"
)
_TRY_LOAD_NONE = (
    "if not file.exists():\n    return None\ntry:\n    return cache.load_fn(file)\n"
    "except (EOFError, pickle.UnpicklingError):\n    return None"
)
_MKDIR_AT_RUN = "if cache is not None:\n    cache.tmp_dir.mkdir(parents=True, exist_ok=True)"
# Cache.__post_init__ as seeded/C19-8 wrote it: the directory is created when the object is constructed
_POST_INIT_MKDIR = "self.tmp_dir = Path(self.tmp_dir)\nself.tmp_dir.mkdir(parents=True, exist_ok=True)"

_SHAPES = {
    "_pickle_load": "with file.open('rb') as fp:\n    return pickle.load(fp)",
    "_load_or_run": (
        "k, v = inp\nif cache is None:\n    res = fn(v)\nelse:\n    file = cache.tmp_dir / cache.name_fn(k)\n"
        "    if file.exists():\n        return (k, cast(Tout, cache.load_fn(file)))\n    res = fn(v)\n"
        "    cache.save_fn(file, res)\nreturn (k, res)"
    ),
}


def _body(fn: ast.FunctionDef) -> list[ast.stmt]:
    return [s for s in fn.body if not (isinstance(s, ast.Expr) and isinstance(s.value, ast.Constant))]


def _norm(fn: ast.FunctionDef) -> str:
    return "\n".join(ast.unparse(s) for s in _body(fn))


def _classify_save(fn: ast.FunctionDef | None) -> str:
    if fn is None or [a.arg for a in fn.args.args] != ["file", "data"]:
        return "SaveUnknown"
    b = _body(fn)

    def with_on(w: ast.stmt, target: str) -> bool:
        return (
            isinstance(w, ast.With)
            and len(w.items) == 1
            and ast.unparse(w.items[0].context_expr) == f"{target}.open('wb')"
            and w.items[0].optional_vars is not None
            and ast.unparse(w.items[0].optional_vars) == "fp"
        )

    def dump_with(w: ast.stmt, target: str) -> bool:
        return with_on(w, target) and [ast.unparse(s) for s in w.body] == ["pickle.dump(data, fp)"]

    def is_dump(s: ast.stmt) -> bool:
        # pickle.dump(data, fp) possibly with a protocol= keyword (the bytes differ, the protocol of writing does not)
        return (
            isinstance(s, ast.Expr)
            and isinstance(s.value, ast.Call)
            and ast.unparse(s.value.func) == "pickle.dump"
            and [ast.unparse(a) for a in s.value.args] == ["data", "fp"]
            and all(k.arg == "protocol" for k in s.value.keywords)
        )

    if len(b) == 1 and dump_with(b[0], "file"):
        return "SaveDirect"
    if len(b) == 3 and isinstance(b[0], ast.Assign) and len(b[0].targets) == 1 and isinstance(b[0].targets[0], ast.Name):
        tmp = b[0].targets[0].id
        v = b[0].value
        # the temporary file must live in the SAME directory as the final file (rename is atomic
        # only within a file system), its name must be the final file's name plus a non-empty
        # suffix (so temporary names are injective in the result name and never equal a result name)
        def own_name_plus(e: ast.expr) -> bool:
            return (
                isinstance(e, ast.JoinedStr)
                and len(e.values) >= 2
                and isinstance(e.values[0], ast.FormattedValue)
                and ast.unparse(e.values[0].value) == "file.name"
                and e.values[0].conversion == -1
                and e.values[0].format_spec is None
            )

        same_dir = (
            isinstance(v, ast.Call)
            and isinstance(v.func, ast.Attribute)
            and ast.unparse(v.func.value) == "file"
            and v.func.attr == "with_name"
            and len(v.args) == 1
            and not v.keywords
            and own_name_plus(v.args[0])
        ) or (isinstance(v, ast.BinOp) and isinstance(v.op, ast.Div) and ast.unparse(v.left) == "file.parent" and own_name_plus(v.right))
        moved = isinstance(b[2], ast.Expr) and ast.unparse(b[2].value) in (f"os.replace({tmp}, file)", f"{tmp}.replace(file)")
        if tmp != "file" and same_dir and dump_with(b[1], tmp) and moved:
            return "SaveTempReplace"
    if len(b) == 2 and isinstance(b[0], ast.Assign) and len(b[0].targets) == 1 and isinstance(b[0].targets[0], ast.Name):
        # the replace INSIDE the with block: the final name is published before the handle is closed
        tmp = b[0].targets[0].id
        w = b[1]
        if (
            tmp != "file"
            and isinstance(b[0].value, ast.Call)
            and ast.unparse(b[0].value.func) == "file.with_name"
            and with_on(w, tmp)
            and len(w.body) == 2
            and is_dump(w.body[0])
            and isinstance(w.body[1], ast.Expr)
            and ast.unparse(w.body[1].value) in (f"os.replace({tmp}, file)", f"{tmp}.replace(file)")
        ):
            return "SaveReplaceOpen"
    return "SaveUnknown"


def extract_facts() -> dict[str, Any]:
    facts: dict[str, Any] = {"save": "SaveUnknown", "load_or_run": False, "wiring": False, "name": "NameUnknown",
                             "object": "CoUnknown", "save_name": "SnUnknown", "lookup": "LkUnknown", "mkdir": "MkUnknown", "why": []}
    try:
        tree = ast.parse((common.REPO / "src/mxlpy/parallel.py").read_text())
        scan = ast.parse((common.REPO / "src/mxlpy/scan.py").read_text())
    except Exception as e:  # noqa: BLE001
        facts["why"].append(f"cannot parse: {e}")
        return facts
    fns = {n.name: n for n in tree.body if isinstance(n, ast.FunctionDef)}
    facts["save"] = _classify_save(fns.get("_pickle_save"))
    pn = fns.get("_pickle_name")
    if pn is not None and [a.arg for a in pn.args.args] == ["k"]:
        facts["name"] = _NAME_KINDS.get(_norm(pn), "NameUnknown")
    if facts["name"] == "NameUnknown":
        facts["why"].append("_pickle_name has an unrecognised shape")
    ok = True
    for name, shape in _SHAPES.items():
        if name not in fns or _norm(fns[name]) != shape:
            ok = False
            facts["why"].append(f"{name} has an unrecognised shape")
    cache_cls = next((n for n in tree.body if isinstance(n, ast.ClassDef) and n.name == "Cache"), None)
    defaults = {}
    if cache_cls is not None:
        for s in cache_cls.body:
            if isinstance(s, ast.AnnAssign) and isinstance(s.target, ast.Name) and s.value is not None:
                defaults[s.target.id] = ast.unparse(s.value)
    if {k: defaults.get(k) for k in ("name_fn", "load_fn", "save_fn")} != {
        "name_fn": "_pickle_name",
        "load_fn": "_pickle_load",
        "save_fn": "_pickle_save",
    }:
        ok = False
        facts["why"].append("Cache defaults changed")
    facts["load_or_run"] = ok
    # which name _load_or_run hands to save_fn (the final one, the very path load_fn gets / a temporary one)
    lor = _norm(fns["_load_or_run"]) if "_load_or_run" in fns else ""
    facts["save_name"] = "SnFinal" if lor == _SHAPES["_load_or_run"] else "SnTemp" if lor == _LOAD_OR_RUN_TEMP else "SnUnknown"
    if facts["save_name"] != "SnFinal":
        facts["why"].append("_load_or_run does not hand `file` itself to cache.save_fn")
    # what _load_or_run takes for "result available": the existence of the file / a helper's non-None answer
    if lor == _SHAPES["_load_or_run"]:
        facts["lookup"] = "LkExists"
    elif lor == _LOAD_OR_RUN_NONE and "_try_load" in fns and _norm(fns["_try_load"]) == _TRY_LOAD_NONE:
        facts["lookup"] = "LkNoneIsMiss"  # seeded/C19-7
    if facts["lookup"] != "LkExists":
        facts["why"].append("_load_or_run does not decide by file.exists() alone")
    # does a Cache object carry state from run to run?  Stateless: the dataclass has exactly the four documented
    # fields and no methods, and _load_or_run asks the directory (file.exists())
    if cache_cls is not None:
        body = [s for s in cache_cls.body if not (isinstance(s, ast.Expr) and isinstance(s.value, ast.Constant))]
        fields = [s.target.id for s in body if isinstance(s, ast.AnnAssign) and isinstance(s.target, ast.Name)]
        methods = [s.name for s in body if isinstance(s, (ast.FunctionDef, ast.AsyncFunctionDef))]
        others = [s for s in body if not isinstance(s, (ast.AnnAssign, ast.FunctionDef, ast.AsyncFunctionDef))]
        decos = [ast.unparse(d) for d in cache_cls.decorator_list]
        if fields == _CACHE_FIELDS and not methods and not others and decos == ["dataclass"] and not cache_cls.bases and "file.exists()" in lor:
            facts["object"] = "CoStateless"
        elif fields == [*_CACHE_FIELDS, "_stored"] and sorted(methods) == ["_has", "_store"] and "cache._has(" in lor:
            facts["object"] = "CoListingMemo"  # seeded/C19-5
    if facts["object"] != "CoStateless":
        facts["why"].append("the Cache class is not the plain four-field dataclass / _load_or_run does not ask the directory")
    # when the cache directory is created: first statement of parallelise / at construction of the Cache object
    par = fns.get("parallelise")
    if par is not None:
        pb = _body(par)
        mkdirs = [n for n in ast.walk(par) if isinstance(n, ast.Attribute) and n.attr in ("mkdir", "makedirs")]
        post = next((s for s in (cache_cls.body if cache_cls is not None else []) if isinstance(s, ast.FunctionDef) and s.name == "__post_init__"), None)
        if pb and ast.unparse(pb[0]) == _MKDIR_AT_RUN:
            facts["mkdir"] = "MkAtRun"
        elif not mkdirs and post is not None and _norm(post) == _POST_INIT_MKDIR:
            facts["mkdir"] = "MkAtConstruct"  # seeded/C19-8
    if facts["mkdir"] != "MkAtRun":
        facts["why"].append("parallelise does not create cache.tmp_dir as its first statement")
    # wiring of parallelise
    w = True
    if par is None:
        w = False
    else:
        stmts = [ast.unparse(n) for n in ast.walk(par) if isinstance(n, (ast.stmt, ast.Call))]
        need = [
            "if cache is not None:\n    cache.tmp_dir.mkdir(parents=True, exist_ok=True)",
            "partial(_load_or_run, fn=fn, cache=cache)",
            "pool.map(worker, inputs, timeout=timeout)",
            "map(worker, inputs)",
            "results.append((key, value))",
            "return results",
        ]
        for s in need:
            if s not in stmts:
                w = False
                facts["why"].append(f"parallelise lacks `{s.splitlines()[0]}`")
        wk = [n for n in ast.walk(par) if isinstance(n, (ast.Assign, ast.AnnAssign)) and ast.unparse(getattr(n, "target", None) or n.targets[0]) == "worker"]
        if len(wk) != 1 or wk[0].value is None or ast.unparse(wk[0].value) != "partial(_load_or_run, fn=fn, cache=cache)":
            w = False
            facts["why"].append("worker is not partial(_load_or_run, fn=fn, cache=cache)")
    # the scan functions pass their cache and inputs through
    sfns = {n.name: n for n in scan.body if isinstance(n, ast.FunctionDef)}
    for name in ("steady_state", "time_course", "protocol", "protocol_time_course"):
        f = sfns.get(name)
        calls = [n for n in ast.walk(f) if isinstance(n, ast.Call) and ast.unparse(n.func) == "parallelise"] if f else []
        good = len(calls) == 1 and {k.arg: ast.unparse(k.value) for k in calls[0].keywords if k.arg in ("inputs", "cache", "parallel")} == {
            "inputs": "list(to_scan.iterrows())",
            "cache": "cache",
            "parallel": "parallel",
        }
        if not good:
            w = False
            facts["why"].append(f"scan.{name} does not pass cache/inputs through as modelled")
    facts["wiring"] = w
    return facts


def expected_name_kind() -> str:
    """the hand-maintained switch coq/cachefs/ExpectedFacts.v: which default name function the tree is
    expected to carry (NameStr: before fixes/C19-name-fn.diff; NameRepr: the tree now, snapshot of the finding
    C19-slash-in-key; NameReprEsc: after fixes/C19-slash-in-key.diff)"""
    import re

    txt = (common.area_dir(AREA) / "ExpectedFacts.v").read_text()
    m = re.search(r"Definition\s+C19_expected_name\s*:\s*name_kind\s*:=\s*(\w+)\s*\.", txt)
    if not m or m.group(1) not in ("NameStr", "NameRepr", "NameReprEsc"):
        raise RuntimeError("coq/cachefs/ExpectedFacts.v: cannot read C19_expected_name")
    return m.group(1)


def gen() -> dict[str, Any]:
    f = extract_facts()
    f["expected_name"] = expected_name_kind()
    text = (
        "(* REGENERATED from src/mxlpy/parallel.py (_pickle_save, _load_or_run, _pickle_load, _pickle_name, Cache,\n"
        "   parallelise) and src/mxlpy/scan.py by harness/c19.py; do not edit.  An unrecognised shape yields\n"
        "   SaveUnknown / false / NameUnknown / CoUnknown / SnUnknown / LkUnknown / MkUnknown, which breaks C19_facts_pinned /\n"
        "   C19_object_facts_pinned / C19_life_facts_pinned. *)\n"
        "From CacheFS Require Import CacheKeys CacheFS CacheCodec CacheObject CacheLife.\n"
        f"Definition gen_cache_facts : cache_facts := mkCacheFacts {f['save']} {common.cbool(f['load_or_run'])} {common.cbool(f['wiring'])} {f['name']}.\n"
        f"Definition gen_cache_object : cache_object_kind := {f['object']}.\n"
        f"Definition gen_save_name : save_name_kind := {f['save_name']}.\n"
        f"Definition gen_lookup : lookup_kind := {f['lookup']}.\n"
        f"Definition gen_mkdir : mkdir_kind := {f['mkdir']}.\n"
    )
    common.write_if_changed(common.area_dir(AREA) / "GenCacheFacts.v", text)
    return f


# ---------------------------------------------------------------------------------------
# driving the implementation (always in a separate interpreter)
# ---------------------------------------------------------------------------------------


def run_driver(scenarios: list[dict], workdir: Path, tag: str, timeout_s: int = 600, hashseed: str | None = None) -> list[dict]:
    job = workdir / f"job-{tag}.json"
    job.write_text(json.dumps({"scenarios": scenarios}))
    env = dict(os.environ)
    env["PYTHONPATH"] = f"{common.REPO}/src:{common.VERIF}"
    env.setdefault("PYTHONHASHSEED", "0")
    if hashseed is not None:
        env["PYTHONHASHSEED"] = hashseed
    p = subprocess.run(
        [sys.executable, "-m", "harness.c19_driver", str(job)],
        cwd=common.VERIF,
        env=env,
        capture_output=True,
        text=True,
        timeout=timeout_s,
    )
    if p.returncode != 0 or not p.stdout.strip():
        raise RuntimeError(f"driver failed rc={p.returncode}: {p.stderr[-800:]}")
    return json.loads(p.stdout)


def run_groups(groups: list[list[dict]], workdir: Path, tag: str, n_drivers: int) -> list[list[dict]]:
    """Run scenario groups (each group shares a cache dir, stages in order) on several drivers."""
    if not groups:
        return []
    n = max(1, min(n_drivers, len(groups)))
    buckets: list[list[int]] = [[] for _ in range(n)]
    # balance by number of stages, parallel runs weigh more
    weight = [sum(4 if s.get("parallel") or s["kind"].startswith("scan") else 1 for s in g) for g in groups]
    load = [0] * n
    for gi in sorted(range(len(groups)), key=lambda i: -weight[i]):
        b = load.index(min(load))
        buckets[b].append(gi)
        load[b] += weight[gi]

    def one(b: int) -> dict[int, list[dict]]:
        idxs = sorted(buckets[b])
        flat = [s for gi in idxs for s in groups[gi]]
        reps = run_driver(flat, workdir, f"{tag}-{b}")
        out, pos = {}, 0
        for gi in idxs:
            out[gi] = reps[pos : pos + len(groups[gi])]
            pos += len(groups[gi])
        return out

    res: dict[int, list[dict]] = {}
    with ThreadPoolExecutor(max_workers=n) as ex:
        for d in ex.map(one, range(n)):
            res.update(d)
    return [res[i] for i in range(len(groups))]


# ---------------------------------------------------------------------------------------
# configurations (what is cached) and the independent oracle
# ---------------------------------------------------------------------------------------

ORACLE_FNS = {
    "sq": lambda x: x * x,
    "affine": lambda x: 3 * x + 1,
    "tup": lambda x: (x, x + 1),
    "dict": lambda x: {"v": x, "sq": x * x},
    "text": lambda x: "r" * (x % 7) + str(x),
    # results that are None / falsy: legal results (Tout is unconstrained), to be stored and returned like any other
    "maybe": lambda x: None if x % 3 == 0 else x * x,
    "falsy": lambda x: [None, 0, "", (), False, 0.0, x][x % 7],
}


def o_canon(v: Any) -> Any:
    """canonical JSON form of a value (own implementation; must agree with the driver's)"""
    if isinstance(v, tuple):
        return {"tuple": [o_canon(x) for x in v]}
    if isinstance(v, list):
        return [o_canon(x) for x in v]
    if isinstance(v, dict):
        return {"dict": [[str(a), o_canon(b)] for a, b in sorted(v.items(), key=lambda kv: str(kv[0]))]}
    if isinstance(v, float):
        return {"float": v.hex()}
    return v


def key_py(k: dict) -> Any:
    t, v = k["t"], k["v"]
    if t == "none":
        return None
    return {"int": int, "str": str, "float": float, "bool": bool}[t](v) if t != "tuple" else tuple(key_py(x) for x in v)


NAME_MODE = ["NameStr"]  # set by check()/replay() from ExpectedFacts.v


def final_name(k: dict) -> str:
    """what the documented default name_fn produces (own implementation, by the expected kind)"""
    if NAME_MODE[0] == "NameReprEsc":
        return "".join({"%": "%25", "/": "%2F"}.get(c, c) for c in repr(key_py(k))) + ".p"
    return f"{key_py(k)!r}.p" if NAME_MODE[0] == "NameRepr" else f"{key_py(k)}.p"


def coq_key(k: dict) -> str:
    """a key as a term of CacheKeys.key (floats by the literal repr() prints: the model identifies a
    float with that literal)"""
    t, v = k["t"], k["v"]
    if t == "int":
        return f"(KInt {cz(int(v))})"
    if t == "bool":
        return f"(KBool {common.cbool(bool(v))})"
    if t == "none":
        return "KNone"
    if t == "float":
        return f"(K_float {common.cstr(repr(float(v)))})"
    if t == "str":
        s = str(v)
        if all(32 <= ord(c) < 127 for c in s):
            return f"(K_str {common.cstr(s)})"
        assert all(ord(c) < 128 for c in s)
        return "(KStr " + clist(f"(ascii_of_nat {ord(c)})" for c in s) + ")"
    if t == "tuple":
        return "(KTuple " + clist(coq_key(x) for x in v) + ")"
    raise ValueError(t)


def coq_string(s: str) -> str:
    """a Coq string literal for an arbitrary 7-bit string"""
    if all(32 <= ord(c) < 127 for c in s):
        return common.cstr(s)
    return "(string_of_list_ascii " + clist(f"(ascii_of_nat {ord(c)})" for c in s) + ")"


def cfg_keys(cfg: dict) -> list[dict]:
    if cfg["kind"] == "map":
        return [k for k, _ in cfg["items"]]
    n = len(next(iter(cfg["to_scan"].values())))
    return [{"t": "int", "v": i} for i in range(n)]


def expected_map(cfg: dict) -> list:
    return [[k, o_canon(ORACLE_FNS[cfg["fn"]](x))] for k, x in cfg["items"]]


def gen_keyset(rng, n: int) -> list[dict]:
    """n keys of mixed types with pairwise distinct file names, none a prefix of another"""
    out: list[dict] = []
    names: list[str] = []
    while len(out) < n:
        t = rng.choice(["int", "int", "str", "tuple", "float", "negint"])
        if t == "int":
            k = {"t": "int", "v": rng.randint(0, 60)}
        elif t == "negint":
            k = {"t": "int", "v": -rng.randint(1, 9)}
        elif t == "str":
            k = {"t": "str", "v": rng.choice(["a", "b", "key", "k_1", "Z", "run-7", "x y"]) + rng.choice(["", "0", "_"])}
        elif t == "float":
            k = {"t": "float", "v": rng.choice([0.5, 1.5, 2.25, 10.0])}
        else:
            k = {"t": "tuple", "v": [{"t": "int", "v": rng.randint(0, 5)}, {"t": "str", "v": rng.choice(["u", "w"])}]}
        nm = final_name(k)
        if any(nm.startswith(o) or o.startswith(nm) for o in names):
            continue
        out.append(k)
        names.append(nm)
    return out


def scenario(cfg: dict, sid: str, cache_dir: Path, side: Path, **kw) -> dict:
    sc = {"id": sid, "kind": cfg["kind"], "cache_dir": str(cache_dir), "side": str(side / sid), "parallel": bool(cfg.get("parallel")), "timeout": 120}
    if cfg["kind"] == "map":
        sc.update(fn=cfg["fn"], items=cfg["items"], workers=cfg.get("workers", 2))
    else:
        sc.update(to_scan=cfg["to_scan"])
    sc.update(kw)
    return sc


EFFECT = {"open": 1, "replace": 1, "osopen": 1, "unlink": 1, "link": 1}


def _effect_list(events: list[dict], buffered: bool) -> list[int]:
    """file-system effects of each event of a run, in the sense of the model (CacheFS.v: an effect is a step
    that changes the directory).  Unbuffered handles: every written byte is one effect, a close none.
    Buffered handles: a write changes nothing, the close drains the buffer -- one effect if anything was
    written through that handle."""
    out = []
    pending: dict[tuple, int] = {}
    for e in events:
        hk = (e["pid"], e["path"])
        if e["kind"] == "write":
            if buffered:
                pending[hk] = pending.get(hk, 0) + e["n"]
                out.append(0)
            else:
                out.append(e["n"])
        elif e["kind"] == "close":
            out.append(1 if buffered and pending.pop(hk, 0) > 0 else 0)
        else:
            if e["kind"] == "open":
                pending.pop(hk, None)
            out.append(EFFECT.get(e["kind"], 0))
    return out


def effects_done(events: list[dict], plan: dict | None, buffered: bool = False) -> int:
    """file-system effects that HAPPENED in a killed run, from its own event log (an event is logged
    before it is performed; the last logged matching event is the one at which the process died)"""
    effs = _effect_list(events, buffered)
    if plan is None:
        return sum(effs)
    ms = [(e, n) for e, n in zip(events, effs) if e["path"].startswith(plan["match"])]
    if not ms:
        return 0
    tot = sum(n for _e, n in ms[:-1])
    last = ms[-1][0]
    if not buffered and last["kind"] == "write" and 0 < plan.get("byte", 0) < last["n"]:
        tot += plan["byte"]
    return tot


def crash_points(events: list[dict], match: str) -> list[tuple[int, int, str]]:
    """(event index among matching events, byte, label): die before each event and inside each write"""
    pts = []
    ms = [e for e in events if e["path"].startswith(match)]
    for i, e in enumerate(ms):
        pts.append((i, 0, "before-" + e["kind"]))
        if e["kind"] == "write":
            for j in range(1, e["n"]):
                pts.append((i, j, "in-write"))
    return pts


# ---------------------------------------------------------------------------------------
# judging one group (oracle) and encoding it for Coq (correspondence)
# ---------------------------------------------------------------------------------------


class Ctx:
    """per configuration: expected results, value ids, pickle sizes (from the clean run)"""

    def __init__(self, cfg: dict, unc: dict, fresh: dict) -> None:
        self.cfg = cfg
        self.keys = cfg_keys(cfg)
        self.finals = [final_name(k) for k in self.keys]
        self.unc_value = unc["result"]["value"] if unc.get("result") and unc["result"]["status"] == "returned" else None
        self.clean_files = fresh["files"]
        self.problems: list[str] = []
        if cfg["kind"] == "map":
            self.expected = expected_map(cfg)
            self.vals = [json.dumps(v, sort_keys=True) for _, v in self.expected]
            self.vid: dict[str, int] = {}
            for v in self.vals:
                self.vid.setdefault(v, len(self.vid) + 1)
            self.item_vid = [self.vid[v] for v in self.vals]
            self.item_x = [int(x) for _, x in cfg["items"]]
            self.pickles = [pickle.dumps(ORACLE_FNS[cfg["fn"]](x)) for _, x in cfg["items"]]
        else:
            self.expected = self.unc_value
            self.item_vid = [100 + i for i in range(len(self.keys))]
            self.item_x = list(range(len(self.keys)))
            self.pickles = [None] * len(self.keys)
        # sizes: from the clean run's files
        self.sizes = []
        for i, f in enumerate(self.finals):
            ent = self.clean_files.get(f)
            self.sizes.append(ent["len"] if isinstance(ent, dict) else None)

    def result_ok(self, rep: dict) -> str | None:
        r = rep.get("result")
        if r is None:
            return f"the run did not finish (exit {rep.get('exit')}, timed_out={rep.get('timed_out')})"
        if r["status"] != "returned":
            return f"the run raised {r.get('exc')}: {r.get('msg')}"
        if r["value"] != self.unc_value:
            return "the run returned results that differ from the uncached run"
        return None

    # ---- canonical directory observation for Coq ------------------------------------
    def content(self, i: int, ent: dict) -> tuple[int, int]:
        """(value id, number of bytes) of a file attributed to item i: the value whose pickle the
        bytes are a prefix of (the item's own value first); -1 if none"""
        ln = ent["len"]
        if self.pickles[i] is not None:
            if "hex" not in ent:
                return -1, ln
            b = bytes.fromhex(ent["hex"])
            for j in [i, *range(len(self.pickles))]:
                if self.pickles[j][:ln] == b:
                    return self.item_vid[j], ln
            return -1, ln
        if self.sizes[i] is not None and ln > self.sizes[i]:
            return -1, ln
        return self.item_vid[i], ln


def observe_dir(ctx: Ctx, files: dict, owner: dict[str, int], stage_pid: int) -> tuple[list, dict[int, list], list[str]]:
    """-> finals per item, {pid: tmp per item}, problems.  `owner` maps every non-final file name to
    the stage (process id 1,2,..) during which it first appeared."""
    probs: list[str] = []
    if files.get("<no-dir>"):
        files = {}
    for name in files:
        if name not in ctx.finals and name not in owner:
            owner[name] = stage_pid
    finals = []
    for i, f in enumerate(ctx.finals):
        finals.append(ctx.content(i, files[f]) if f in files else None)
    tmps: dict[int, list] = {p: [None] * len(ctx.finals) for p in range(1, stage_pid + 1)}
    for name, ent in files.items():
        if name in ctx.finals:
            continue
        cands = [i for i, f in enumerate(ctx.finals) if name.startswith(f + ".")]
        if len(cands) != 1:
            probs.append(f"file {name!r} in the cache directory cannot be attributed to a key")
            continue
        i = cands[0]
        p = owner[name]
        if tmps[p][i] is not None:
            probs.append(f"two temporary files for key #{i} from the same run")
            tmps[p][i] = (-2, 0)
        else:
            tmps[p][i] = ctx.content(i, ent)
    return finals, tmps, probs


def c_oc(o) -> str:
    return "None" if o is None else f"(Some ({cz(o[0])}, {cnat(o[1])}))"


def coq_outcome(ctx: Ctx, rep: dict) -> str:
    r = rep.get("result")
    if r is None:
        return "Died"
    if r["status"] == "raised":
        return "Died" if r.get("exc") == "ProcessExpired" else "Raises"
    if ctx.cfg["kind"] == "map":
        vals = r["value"]
        pairs = []
        if not isinstance(vals, list) or [kv[0] for kv in vals] != ctx.keys:
            return "(Returned [(0%N, (-3)%Z)])"
        for i, (_k, v) in enumerate(vals):
            pairs.append(f"({cn(i + 1)}, {cz(ctx.vid.get(json.dumps(v, sort_keys=True), -1))})")
        return f"(Returned {clist(pairs)})"
    same = r["value"] == ctx.unc_value
    return "(Returned " + clist(f"({cn(i + 1)}, {cz(ctx.item_vid[i] if same else -1)})" for i in range(len(ctx.keys))) + ")"


def coq_case(ctx: Ctx, stages: list[tuple[dict, dict]]) -> tuple[str, list[str]]:
    """stages: (scenario, report) in order, all on one cache dir starting empty"""
    probs: list[str] = []
    name_ids: dict[str, int] = {}
    for f in ctx.finals:
        name_ids.setdefault(f, len(name_ids) + 1)
    names = clist(f"({cn(i + 1)}, {cn(name_ids[f])})" for i, f in enumerate(ctx.finals))
    fns = clist(f"({cn(x)}, {cz(v)})" for x, v in sorted(set(zip(ctx.item_x, ctx.item_vid))))
    if any(s is None for s in ctx.sizes):
        probs.append("clean run did not leave one file per key under the documented name")
    sizes = clist(f"({cz(v)}, {cnat(s or 1)})" for v, s in sorted(set(zip(ctx.item_vid, ctx.sizes)), key=lambda t: t[0]))
    items = clist(f"({cn(i + 1)}, {cn(x)})" for i, x in enumerate(ctx.item_x))
    owner: dict[str, int] = {}
    st_txt = []
    for pid, (sc, rep) in enumerate(stages, start=1):
        plan = sc.get("plan")
        killed = plan is not None and (rep.get("exit") in (77, -9) or (rep.get("result") or {}).get("exc") == "ProcessExpired")
        buffered = bool(sc.get("buffered"))
        if plan is None or not killed:
            spec = "RPar" if sc.get("parallel") else "RSeq None"
        elif sc.get("parallel"):
            c = next(i for i, f in enumerate(ctx.finals) if f == plan["match"])
            spec = f"RParExit {cnat(c)} {cn(effects_done(rep['events'], plan, buffered))}"
        else:
            spec = f"RSeq (Some {cn(effects_done(rep['events'], plan, buffered))})"
        finals, tmps, pr = observe_dir(ctx, rep["files"], owner, pid)
        probs += pr
        obs = (
            f"mkObs {common.cbool(not killed)} {coq_outcome(ctx, rep)} {cn(len(rep['calls']))} "
            f"{clist(map(c_oc, finals))} {clist(clist(map(c_oc, tmps[p])) for p in range(1, pid + 1))}"
        )
        st_txt.append(f"({spec}, {common.cbool(buffered)}, {obs})")
    return f"({names}, {fns}, {sizes}, {items}, {clist(st_txt)})", probs


def names_file(cases: list[str]) -> str:
    """the default name function: key (as a term of the model's key universe) and the file name the
    implementation used for it, compared with name_of (regenerated kind) evaluated inside Coq"""
    return (
        "From Coq Require Import List ZArith NArith Ascii String.\nImport ListNotations.\n"
        "From MxlBase Require Import ListX.\nFrom CacheFS Require Import CacheKeys CacheFS GenCacheFacts CacheFSRun.\n"
        "Definition ncases : list name_case := [\n  " + ";\n  ".join(cases) + "\n].\n"
        "Definition mismatches := filter_idx (fun c => negb (name_case_ok (cf_name gen_cache_facts) c)) ncases.\n"
        "Eval vm_compute in mismatches.\n"
    )


def corr_file(cases: list[str]) -> str:
    return (
        "From MxlBase Require Import ListX.\nFrom CacheFS Require Import CacheFS GenCacheFacts CacheFSRun.\n"
        "Definition cases : list case := [\n  " + ";\n  ".join(cases) + "\n].\n"
        "Definition mismatches := filter_idx (fun c => negb (case_ok (cf_save gen_cache_facts) c)) cases.\n"
        "Eval vm_compute in mismatches.\n"
    )


# ---------------------------------------------------------------------------------------
# building the groups
# ---------------------------------------------------------------------------------------


def make_configs(rng, thorough: bool) -> list[dict]:
    cfgs: list[dict] = []
    ik = lambda v: {"t": "int", "v": v}  # noqa: E731
    # A: three int keys, 5-byte pickles, sequential: EVERY crash point
    cfgs.append({"name": "A-int-seq", "kind": "map", "fn": "sq", "items": [[ik(1), 2], [ik(2), 3], [ik(7), 4]], "parallel": False, "points": "all"})
    # B: mixed key types, structured result (about 30 bytes): every byte offset of every pickle
    cfgs.append({"name": "B-mixed-seq", "kind": "map", "fn": "dict",
                 "items": [[{"t": "str", "v": "a"}, 5], [{"t": "tuple", "v": [ik(1), {"t": "str", "v": "u"}]}, 6], [{"t": "float", "v": 2.5}, 7]],
                 "parallel": False, "points": "all"})
    # H: negative int keys (hash(-1) == hash(-2) in CPython; their names differ)
    cfgs.append({"name": "H-negint-seq", "kind": "map", "fn": "affine", "items": [[ik(-1), 1], [ik(-2), 2], [ik(-3), 5]], "parallel": False, "points": "few"})
    # N: keys whose str()/repr() need care: quotes, backslash, control characters, nested / empty / 1-tuples, None,
    # bool, float literals with exponent / sign (ties the Gallina model of str()/repr() to the file names in use)
    sk = lambda v: {"t": "str", "v": v}  # noqa: E731
    cfgs.append({"name": "N-quoting-seq", "kind": "map", "fn": "sq", "parallel": False, "points": "few",
                 "items": [[sk("it's"), 1], [sk('a"b'), 2], [sk("q'\""), 3], [sk("back\\slash"), 4], [sk("tab\there\x01"), 5],
                           [{"t": "tuple", "v": []}, 6], [{"t": "tuple", "v": [ik(1)]}, 7],
                           [{"t": "tuple", "v": [{"t": "tuple", "v": [ik(-3), sk("u")]}, {"t": "float", "v": 2.5}]}, 8],
                           [{"t": "none", "v": None}, 9], [{"t": "bool", "v": True}, 10], [{"t": "float", "v": 1e16}, 11],
                           [{"t": "float", "v": -0.0}, 12], [ik(10**20), 13], [sk("key"), 14], [sk("Key"), 15], [sk(" key"), 16]]})
    # C: pool, one worker dies (others finish); every crash point of every key
    cfgs.append({"name": "C-int-pool", "kind": "map", "fn": "affine", "items": [[ik(3), 1], [ik(4), 2], [ik(5), 3]], "parallel": True, "workers": 2, "points": "all"})
    # D: scan.steady_state through the cache, sequential; event boundaries + some byte offsets
    cfgs.append({"name": "D-scan-ss-seq", "kind": "scan_ss", "to_scan": {"k1": [1, 2, 3]}, "parallel": False, "points": "sample"})
    # E: scan.steady_state with the pool
    cfgs.append({"name": "E-scan-ss-pool", "kind": "scan_ss", "to_scan": {"k1": [1, 2], "k2": [2, 4]}, "parallel": True, "points": "few"})
    n_rand = 10 if thorough else 2
    for r in range(n_rand):
        n = rng.randint(1, 5)
        keys = gen_keyset(rng, n)
        fn = rng.choice(sorted(ORACLE_FNS))
        par = rng.random() < 0.4
        cfgs.append({"name": f"R{r}-{fn}-{'pool' if par else 'seq'}", "kind": "map", "fn": fn,
                     "items": [[k, rng.randint(0, 40)] for k in keys], "parallel": par, "workers": rng.randint(1, 3),
                     "points": "all" if thorough else "sample"})
    if thorough:
        cfgs.append({"name": "F-scan-tc-seq", "kind": "scan_tc", "to_scan": {"k2": [1, 2, 4]}, "parallel": False, "points": "sample"})
        cfgs.append({"name": "G-scan-tc-pool", "kind": "scan_tc", "to_scan": {"k1": [1, 3]}, "parallel": True, "points": "few"})
    return cfgs


def phase1_group(cfg: dict, root: Path, gi: int) -> list[dict]:
    d = root / f"p1-{gi}"
    return [
        scenario(cfg, "unc", d / "cache-unused", d, use_cache=False),
        scenario(cfg, "fresh", d / "cache", d),
        scenario(cfg, "second", d / "cache", d),
        # the other execution mode on the filled cache
        scenario(cfg, "second-other", d / "cache", d, parallel=not cfg.get("parallel")),
    ]


def select_points(cfg: dict, pts: list[tuple[int, int, str]], rng, thorough: bool) -> list[tuple[int, int, str]]:
    mode = cfg["points"]
    if mode == "all":
        return pts
    boundaries = [p for p in pts if p[1] == 0]
    inner = [p for p in pts if p[1] != 0]
    if mode == "few":
        k = 6 if thorough else 3
        pick = rng.sample(boundaries, min(k, len(boundaries))) + rng.sample(inner, min(k, len(inner)))
        return sorted(set(pick))
    # sample: every boundary, first/last/some interior bytes of every write
    by_ev: dict[int, list] = {}
    for p in inner:
        by_ev.setdefault(p[0], []).append(p)
    pick = list(boundaries)
    for _ev, ps in by_ev.items():
        pick += [ps[0], ps[-1]] + rng.sample(ps, min(6 if thorough else 2, len(ps)))
    return sorted(set(pick))


def phase2_groups(cfg: dict, fresh: dict, root: Path, ci: int, rng, thorough: bool) -> list[tuple[dict, list[dict]]]:
    """-> [(meta, scenarios)]"""
    out = []
    keys = cfg_keys(cfg)
    events = fresh["events"]
    if not cfg.get("parallel"):
        pts = select_points(cfg, crash_points(events, ""), rng, thorough)
        for n, (i, j, lab) in enumerate(pts):
            d = root / f"c{ci}-s{n}"
            plan = {"match": "", "event": i, "byte": j, "action": "exit"}
            rerun_par = (n % 5 == 4)
            g = [scenario(cfg, "crash", d / "cache", d, plan=plan),
                 scenario(cfg, "rerun", d / "cache", d, parallel=rerun_par),
                 scenario(cfg, "rerun2", d / "cache", d)]
            out.append(({"cfg": cfg["name"], "mode": "seq", "point": [i, j, lab]}, g))
        # the same event boundaries with user-space buffering of the written bytes (the model's pol_buffered):
        # a protocol that publishes a file before closing it leaves an empty or truncated final file here
        for n, (i, j, lab) in enumerate(p for p in pts if p[1] == 0):
            d = root / f"c{ci}-b{n}"
            plan = {"match": "", "event": i, "byte": 0, "action": "exit"}
            g = [scenario(cfg, "crash", d / "cache", d, plan=plan, buffered=True),
                 scenario(cfg, "rerun", d / "cache", d),
                 scenario(cfg, "rerun2", d / "cache", d)]
            out.append(({"cfg": cfg["name"], "mode": "seq-buffered", "point": [i, 0, lab]}, g))
        # chains: kill, kill the rerun too, then rerun
        n_chain = 8 if thorough else 3
        for n in range(min(n_chain, len(pts))):
            i, j, lab = rng.choice(pts)
            d = root / f"c{ci}-ch{n}"
            plan1 = {"match": "", "event": i, "byte": j, "action": "exit"}
            plan2 = {"match": "", "event": rng.randint(1, 6), "byte": rng.choice([0, 0, 1, 2]), "action": "exit"}
            g = [scenario(cfg, "crash", d / "cache", d, plan=plan1),
                 scenario(cfg, "crash2", d / "cache", d, plan=plan2),
                 scenario(cfg, "rerun", d / "cache", d),
                 scenario(cfg, "rerun2", d / "cache", d)]
            out.append(({"cfg": cfg["name"], "mode": "seq-chain", "point": [i, j, lab]}, g))
    else:
        n = 0
        for ki, k in enumerate(keys):
            fname = final_name(k)
            pts = select_points(cfg, crash_points(events, fname), rng, thorough)
            for i, j, lab in pts:
                d = root / f"c{ci}-p{n}"
                n += 1
                plan = {"match": fname, "event": i, "byte": j, "action": "exit"}
                g = [scenario(cfg, "crash", d / "cache", d, plan=plan),
                     scenario(cfg, "rerun", d / "cache", d, parallel=(n % 2 == 0)),
                     scenario(cfg, "rerun2", d / "cache", d, parallel=False)]
                out.append(({"cfg": cfg["name"], "mode": "pool-exit", "key": ki, "point": [i, j, lab]}, g))
                if j == 0:
                    d = root / f"c{ci}-pb{n}"
                    g = [scenario(cfg, "crash", d / "cache", d, plan=plan, buffered=True),
                         scenario(cfg, "rerun", d / "cache", d, parallel=(n % 2 == 1)),
                         scenario(cfg, "rerun2", d / "cache", d, parallel=False)]
                    out.append(({"cfg": cfg["name"], "mode": "pool-exit-buffered", "key": ki, "point": [i, 0, lab]}, g))
        # the whole process group is killed while one worker is mid-write (oracle only)
        for m in range(4 if thorough else 2):
            k = rng.choice(keys)
            fname = final_name(k)
            pts = crash_points(events, fname)
            if not pts:
                continue
            i, j, lab = rng.choice(pts)
            d = root / f"c{ci}-k{m}"
            plan = {"match": fname, "event": i, "byte": j, "action": "killpg"}
            g = [scenario(cfg, "crash", d / "cache", d, plan=plan),
                 scenario(cfg, "rerun", d / "cache", d),
                 scenario(cfg, "rerun2", d / "cache", d, parallel=False)]
            out.append(({"cfg": cfg["name"], "mode": "pool-killpg", "point": [i, j, lab], "no_corr": True}, g))
    return out


def judge_group(ctx: Ctx, meta: dict, scs: list[dict], reps: list[dict]) -> tuple[str | None, bool]:
    """oracle on one kill-then-rerun group -> (what is wrong | None, the kill really happened)"""
    killed = False
    for sc, rep in zip(scs, reps):
        if sc.get("plan") is not None:
            if rep.get("exit") in (77, -9) or (rep.get("result") or {}).get("exc") == "ProcessExpired":
                killed = True
            continue
        bad = ctx.result_ok(rep)
        if bad:
            return f"{sc['id']} after a run killed at {meta.get('point')} ({meta['mode']}): {bad}", killed
        if sc["id"] == "rerun2" and rep["calls"]:
            return f"second rerun recomputed {len(rep['calls'])} result(s) although the first rerun completed", killed
    return None, killed


# ---------------------------------------------------------------------------------------
# known finding: name collision
# ---------------------------------------------------------------------------------------

COLLISION_CFG = {"name": "K-collision", "kind": "map", "fn": "sq", "items": [[{"t": "int", "v": 1}, 2], [{"t": "str", "v": "1"}, 3]], "parallel": False}


def collision_reproduces(reps: list[dict]) -> tuple[bool, str]:
    unc, fresh = reps[0], reps[1]
    try:
        u, f = unc["result"]["value"], fresh["result"]["value"]
    except Exception:  # noqa: BLE001
        return False, f"unexpected reports {unc.get('result')} {fresh.get('result')}"
    return u != f, f"uncached={u} cached={f}"



# ---------------------------------------------------------------------------------------
# keys whose printed form needs care as a FILE NAME (path separator, percent sign, dots, NUL)
# ---------------------------------------------------------------------------------------

_sk = lambda v: {"t": "str", "v": v}  # noqa: E731
_ik = lambda v: {"t": "int", "v": v}  # noqa: E731
# no '/' in the printed key: must work under both name functions
SPECIAL_CFG = {"name": "P-special-seq", "kind": "map", "fn": "affine", "parallel": False, "points": "few",
               "items": [[_sk(".."), 1], [_sk("."), 2], [_sk("a%b"), 3], [_sk("a%2Fb"), 4], [_sk("nul\x00byte"), 5], [_sk(""), 6],
                         [{"t": "tuple", "v": [_sk(".."), _ik(0)]}, 7], [_sk("back\\slash"), 8]]}
# a path separator in the printed key: the finding C19-slash-in-key while ExpectedFacts.v says NameRepr
SLASH_CFG = {"name": "P-slash-seq", "kind": "map", "fn": "sq", "parallel": False, "points": "few",
             "items": [[_sk("ATP/ADP"), 2], [{"t": "tuple", "v": [_sk("x/y"), _ik(1)]}, 3], [_sk("/abs"), 4], [_sk("../up"), 5], [_sk("ATP%2FADP"), 6], [_sk("ATP_ADP"), 7], [_sk("ATPADP"), 8]]}
SLASH_FID = "C19-slash-in-key"
# results that are None / falsy (a worker reporting "no result" as None): stored, returned and NOT recomputed like any other
NONE_CFGS = [
    {"name": "O-falsy-seq", "kind": "map", "fn": "falsy", "parallel": False, "points": "few",
     "items": [[_sk(f"f{i}"), i] for i in range(7)]},
    {"name": "O-none-pool", "kind": "map", "fn": "maybe", "parallel": True, "workers": 2, "points": "few",
     "items": [[_ik(20), 3], [_ik(21), 4], [_ik(22), 6]]},
]


def slash_reproduces(reps: list[dict]) -> tuple[bool, str]:
    unc, fresh = reps[0], reps[1]
    ur, fr = unc.get("result") or {}, fresh.get("result") or {}
    bad = ur.get("status") == "returned" and (fr.get("status") != "returned" or fr.get("value") != ur.get("value"))
    return bad, f"uncached run returned {len(ur.get('value') or [])} results; cached run over a fresh directory: {fr.get('status')} {fr.get('exc', '')} {fr.get('msg', '')[:120]}"


# ---------------------------------------------------------------------------------------
# SESSIONS: several runs in one process with ONE Cache object
# ---------------------------------------------------------------------------------------


def make_sessions(rng, thorough: bool) -> list[dict]:
    """a session = fn + runs [(items, parallel)] over one key universe (one input per key, pairwise different inputs)"""
    def items_of(keys: list[dict], base: int) -> list[list]:
        return [[k, base + i] for i, k in enumerate(keys)]

    ints = items_of([_ik(i) for i in range(6)], 2)
    A, B = ints[:4], ints[4:]
    mixed = items_of([_sk("a"), {"t": "tuple", "v": [_ik(1), _sk("u")]}, {"t": "float", "v": 2.5}, _ik(-1), _sk("1"), _ik(1)], 3)
    M1, M2, M3 = mixed[:3], mixed[2:5], mixed[5:]
    run = lambda items, par, w=2: {"items": items, "parallel": par, "workers": w}  # noqa: E731
    out = [
        # the same object for two parallel runs, then a grown key set (the notebook use of seeded/C19-5)
        {"name": "S-par-par-grow", "fn": "sq", "runs": [run(A, True), run(A, True), run(A + B, True, 3)]},
        {"name": "S-seq-par-par", "fn": "affine", "runs": [run(A, False), run(A + B, True), run(A + B, True)]},
        {"name": "S-par-seq-overlap", "fn": "dict", "runs": [run(M1, True), run(M2, False), run(M1 + M3, True), run(M3 + M2, True, 1)]},
        {"name": "S-seq-seq-grow", "fn": "tup", "runs": [run(B, False), run(B + A, False), run(A, False)]},
    ]
    for r in range(6 if thorough else 1):
        keys = gen_keyset(rng, rng.randint(3, 7))
        univ = items_of(keys, rng.randint(0, 20))
        runs = []
        for _ in range(rng.randint(2, 4)):
            sub = [it for it in univ if rng.random() < 0.6] or [univ[0]]
            rng.shuffle(sub)
            runs.append(run(sub, rng.random() < 0.6, rng.randint(1, 3)))
        out.append({"name": f"S-rand{r}", "fn": rng.choice(["sq", "affine", "tup", "dict", "text"]), "runs": runs})
    return out


def session_group(sess: dict, root: Path, gi: int) -> list[dict]:
    d = root / f"sess-{gi}"
    base = {"kind": "session", "fn": sess["fn"], "runs": sess["runs"], "timeout": 180,
            "parallel": any(r["parallel"] for r in sess["runs"])}
    return [
        {**base, "id": "unc", "cache_dir": str(d / "cache-unused"), "side": str(d / "unc"), "use_cache": False},
        {**base, "id": "session", "cache_dir": str(d / "cache"), "side": str(d / "session")},
    ]


def _before_text(run: dict) -> str:
    acts = run.get("before") or []
    words = {"wipe": "the cache directory was removed (shutil.rmtree)", "retarget": "cache.tmp_dir was assigned directory #{}",
             "new": "a new Cache object was constructed for directory #{}", "copy": "the Cache object was copied through pickle"}
    return ("; before it: " + ", ".join(words[a[0]].format(*a[1:]) for a in acts)) if acts else ""


def judge_session(sess: dict, reps: list[dict]) -> tuple[str | None, list[dict] | None]:
    """oracle on one session -> (what is wrong | None, per-run reports of the cached session).  Own book-keeping of
    the directories: directory id -> {file name: input}; a directory that was wiped / never used holds nothing."""
    unc, cached = reps
    for nm, rep in (("uncached", unc), ("cached", cached)):
        r = rep.get("result")
        if r is None or r.get("status") != "returned" or not isinstance(r.get("value"), list) or len(r["value"]) != len(sess["runs"]):
            return f"{nm} session did not finish: exit={rep.get('exit')} result={json.dumps(r)[:200]}", None
    fn = ORACLE_FNS[sess["fn"]]
    dirs: dict[int, dict[str, int]] = {}
    cur = 0
    for i, (run, u, c) in enumerate(zip(sess["runs"], unc["result"]["value"], cached["result"]["value"])):
        for act in run.get("before") or []:
            if act[0] == "wipe":
                dirs.pop(cur, None)
            elif act[0] in ("retarget", "new"):
                cur = int(act[1])
        seen = dirs.setdefault(cur, {})
        mode = ("parallel" if run["parallel"] else "sequential") + _before_text(run)
        want = [[k, o_canon(fn(x))] for k, x in run["items"]]
        if u.get("status") != "returned":
            return f"run #{i} WITHOUT cache raised {u.get('exc')}", None
        if c.get("status") != "returned":
            return f"run #{i} ({mode}) of the session raised {c.get('exc')}: {c.get('msg')}", cached["result"]["value"]
        if json.dumps(c["value"], sort_keys=True) != json.dumps(u["value"], sort_keys=True):
            return f"run #{i} ({mode}) of the session returned results that differ from the run without cache", cached["result"]["value"]
        if json.dumps(u["value"], sort_keys=True) != json.dumps(want, sort_keys=True):
            return None, None  # not C19's business (reference = the uncached run); no verdict on this session
        new = [(final_name(k), x) for k, x in run["items"] if final_name(k) not in seen]
        if sorted(c["calls"]) != sorted(str(x) for _n, x in new):
            on_disk = len(run["items"]) - len(new)
            stored = sorted(json.dumps(o_canon(fn(x))) for k, x in run["items"] if final_name(k) in seen)
            return (f"run #{i} ({mode}, same Cache object as the earlier runs) evaluated fn on inputs {sorted(c['calls'])}; {on_disk} of its {len(run['items'])} results "
                    f"were on disk (stored results: {stored[:8]}), expected evaluations: {sorted(str(x) for _n, x in new)}"), cached["result"]["value"]
        for n, x in new:
            seen[n] = x
        files = c["files"] if not c["files"].get("<no-dir>") else {}
        if sorted(files) != sorted(seen):
            return f"after run #{i} ({mode}) the directory holds {sorted(files)}, expected exactly {sorted(seen)}", cached["result"]["value"]
        for n, x in seen.items():
            ent = files[n]
            # what the file must do is LOAD to the result (the bytes of another pickle protocol would do as well)
            try:
                held = json.dumps(o_canon(pickle.loads(bytes.fromhex(ent["hex"]))), sort_keys=True) if "hex" in ent else None  # noqa: S301
            except Exception:  # noqa: BLE001
                held = None
            if held != json.dumps(o_canon(fn(x)), sort_keys=True):
                return f"after run #{i} the file {n!r} does not hold the pickled result", cached["result"]["value"]
    return None, cached["result"]["value"]


# ---------------------------------------------------------------------------------------
# LIFE of a Cache object and its directory: results that are None / falsy, the directory wiped between runs, the
# object pointed at another directory, new objects, pickled copies (one process, as in a notebook)
# ---------------------------------------------------------------------------------------


def make_life_sessions(rng, thorough: bool) -> list[dict]:
    def items_of(keys: list[dict], base: int) -> list[list]:
        return [[k, base + i] for i, k in enumerate(keys)]

    ints = items_of([_ik(i) for i in range(6)], 3)  # inputs 3..8: 'maybe' gives None for 3 and 6
    A, B = ints[:4], ints[4:]
    F = items_of([_sk(f"f{i}") for i in range(7)], 0)  # 'falsy': None, 0, '', (), False, 0.0, 6
    run = lambda items, par, before=(), w=2: {"items": items, "parallel": par, "workers": w, "before": [list(b) for b in before]}  # noqa: E731
    out = [
        # the demo of seeded/C19-7: a repeated run over results some of which are None
        {"name": "L-none-seq", "fn": "maybe", "runs": [run(A, False), run(A, False), run(A + B, False)]},
        {"name": "L-none-pool", "fn": "maybe", "runs": [run(A, True), run(A, True), run(B + A, False)]},
        {"name": "L-falsy-pool-seq", "fn": "falsy", "runs": [run(F, True), run(F, False), run(F[::-1], True, (), 3)]},
        # the demo of seeded/C19-8: one long-lived object, the directory wiped to force a recomputation
        {"name": "L-wipe-seq", "fn": "sq", "runs": [run(A, False), run(A, False), run(A, False, [["wipe"]]), run(A + B, False)]},
        {"name": "L-wipe-pool", "fn": "affine", "runs": [run(A, True), run(A, True, [["wipe"]]), run(A, True)]},
        {"name": "L-retarget", "fn": "tup", "runs": [run(A, False), run(A, True, [["retarget", 1]]), run(A + B, False, [["retarget", 0]]),
                                                      run(B, True, [["retarget", 2]])]},
        {"name": "L-copy-wipe", "fn": "maybe", "runs": [run(A, False), run(A, False, [["wipe"], ["copy"]]), run(A, True, [["copy"]])]},
        {"name": "L-new-objects", "fn": "dict", "runs": [run(A, True), run(A, False, [["new", 0]]), run(B, False, [["new", 1]]),
                                                         run(A + B, True, [["wipe"], ["new", 1]]), run(A, False, [["wipe"], ["retarget", 0]])]},
    ]
    for r in range(5 if thorough else 1):
        keys = gen_keyset(rng, rng.randint(3, 6))
        univ = items_of(keys, rng.randint(0, 12))
        runs = []
        for j in range(rng.randint(3, 5)):
            sub = [it for it in univ if rng.random() < 0.65] or [univ[0]]
            rng.shuffle(sub)
            before = []
            if j > 0:
                for _ in range(rng.choice([0, 1, 1, 2])):
                    a = rng.choice(["wipe", "retarget", "new", "copy", "wipe"])
                    before.append([a, rng.randint(0, 2)] if a in ("retarget", "new") else [a])
            runs.append(run(sub, rng.random() < 0.5, before, rng.randint(1, 3)))
        out.append({"name": f"L-rand{r}", "fn": rng.choice(["maybe", "falsy", "sq", "tup"]), "runs": runs})
    return out


def coq_lcase(sess: dict, runs_rep: list[dict]) -> str:
    """the session as a history for the big-step model CacheLife.v: events between the runs, per run what was observed"""
    fn = ORACLE_FNS[sess["fn"]]
    univ: dict[str, tuple[int, int]] = {}
    name_ids: dict[str, int] = {}
    for run in sess["runs"]:
        for k, x in run["items"]:
            kj = json.dumps(k, sort_keys=True)
            univ.setdefault(kj, (len(univ) + 1, x))
            name_ids.setdefault(final_name(k), len(name_ids) + 1)
    vals: dict[str, int] = {}
    fns_t: dict[int, int] = {}
    for _kj, (_kid, x) in univ.items():
        fns_t[x] = vals.setdefault(json.dumps(o_canon(fn(x)), sort_keys=True), len(vals) + 1)
    nones = [vid for v, vid in vals.items() if v == "null"]
    names = clist(f"({cn(kid)}, {cn(name_ids[final_name(json.loads(kj))])})" for kj, (kid, _x) in univ.items())
    fns = clist(f"({cn(x)}, {cz(v)})" for x, v in sorted(fns_t.items()))
    evs = ["OEv (LNew 0)"]
    for run, rep in zip(sess["runs"], runs_rep):
        for act in run.get("before") or []:
            if act[0] == "wipe":
                evs.append("OEv LWipe")
            elif act[0] == "retarget":
                evs.append(f"OEv (LRetarget {cn(int(act[1]))})")
            elif act[0] == "new":
                evs.append(f"OEv (LNew {cn(int(act[1]))})")
        items = clist(f"({cn(univ[json.dumps(k, sort_keys=True)][0])}, {cn(x)})" for k, x in run["items"])
        if rep.get("status") == "returned":
            if [kv[0] for kv in rep["value"]] == [k for k, _ in run["items"]]:
                ores = "(Some " + clist(f"({cn(univ[json.dumps(k, sort_keys=True)][0])}, {cz(vals.get(json.dumps(v, sort_keys=True), -1))})" for k, v in rep["value"]) + ")"
            else:
                ores = "(Some [(0%N, (-3)%Z)])"
        else:
            ores = "None"
        files = rep.get("files") or {}
        stored = []
        for k, _x in run["items"]:
            ent = files.get(final_name(k))
            if not isinstance(ent, dict):
                stored.append("None")
                continue
            try:
                vid = vals.get(json.dumps(o_canon(pickle.loads(bytes.fromhex(ent["hex"]))), sort_keys=True), -1)  # noqa: S301
            except Exception:  # noqa: BLE001
                vid = -1
            stored.append(f"(Some {cz(vid)})")
        evs.append(f"ORun {items} ({ores}, {cnat(len(rep.get('calls', [])))}, {clist(stored)})")
    return f"({names}, {fns}, {clist(cz(v) for v in nones)}, {clist(evs)})"


def lcorr_file(cases: list[str]) -> str:
    return (
        "From Coq Require Import List NArith ZArith.\nImport ListNotations.\nFrom MxlBase Require Import ListX.\n"
        "From CacheFS Require Import CacheLife GenCacheFacts.\n"
        "Definition cases : list lcase := [\n  " + ";\n  ".join(cases) + "\n].\n"
        "Definition mismatches := filter_idx (fun c => negb (lcase_ok gen_lookup gen_mkdir c)) cases.\n"
        "Eval vm_compute in mismatches.\n"
    )


SCAN_LIFE = {"to_scan": {"k1": [1, 2, 3]}, "steps": ["run", "run", "wipe", "run", "run"]}


def scan_life_group(root: Path, parallel: bool, gi: int) -> list[dict]:
    d = root / f"scanlife-{gi}"
    base = {"kind": "scan_life", "to_scan": SCAN_LIFE["to_scan"], "steps": SCAN_LIFE["steps"], "parallel": parallel, "timeout": 240}
    return [
        {**base, "id": "unc", "cache_dir": str(d / "cache-unused"), "side": str(d / "unc"), "use_cache": False},
        {**base, "id": "life", "cache_dir": str(d / "cache"), "side": str(d / "life")},
    ]


def judge_scan_life(reps: list[dict]) -> str | None:
    """scan.steady_state(cache=) run, repeated, the directory wiped, run, repeated -- one Cache object"""
    unc, cached = reps
    n = len(next(iter(SCAN_LIFE["to_scan"].values())))
    names = sorted(final_name({"t": "int", "v": i}) for i in range(n))
    runs = [s for s in SCAN_LIFE["steps"] if s == "run"]
    for nm, rep in (("uncached", unc), ("cached", cached)):
        r = rep.get("result")
        if r is None or r.get("status") != "returned" or not isinstance(r.get("value"), list) or len(r["value"]) != len(runs):
            return f"{nm} scan session did not finish: exit={rep.get('exit')} result={json.dumps(r)[:200]}"
    want_calls = []
    present = False
    for s in SCAN_LIFE["steps"]:
        if s == "wipe":
            present = False
        else:
            want_calls.append(0 if present else n)
            present = True
    for i, (u, c) in enumerate(zip(unc["result"]["value"], cached["result"]["value"])):
        if u.get("status") != "returned":
            return None  # no reference
        if c.get("status") != "returned":
            return f"scan.steady_state #{i} with the long-lived Cache object raised {c.get('exc')}: {c.get('msg')} (steps {SCAN_LIFE['steps']})"
        if c["value"] != u["value"]:
            return f"scan.steady_state #{i} with cache returned frames that differ from the scan without cache"
        if len(c["calls"]) != want_calls[i]:
            return f"scan.steady_state #{i} (steps {SCAN_LIFE['steps']}) ran the worker {len(c['calls'])} times, expected {want_calls[i]}"
        if c["files"] != names:
            return f"after scan.steady_state #{i} the cache directory holds {c['files']}, expected {names}"
    return None


def coq_scase(sess: dict, runs_rep: list[dict]) -> str:
    """the session for the small-step model: one stage per run, each over its own pairs, one directory"""
    fn = ORACLE_FNS[sess["fn"]]
    univ: dict[str, tuple[int, int]] = {}  # key json -> (key id, x)
    name_ids: dict[str, int] = {}
    for run in sess["runs"]:
        for k, x in run["items"]:
            kj = json.dumps(k, sort_keys=True)
            univ.setdefault(kj, (len(univ) + 1, x))
            name_ids.setdefault(final_name(k), len(name_ids) + 1)
    key_name = {json.dumps(k, sort_keys=True): final_name(k) for run in sess["runs"] for k, _ in run["items"]}
    vals: dict[str, int] = {}
    fns_t, sizes_t = {}, {}
    for kj, (_kid, x) in univ.items():
        v = json.dumps(o_canon(fn(x)), sort_keys=True)
        vid = vals.setdefault(v, len(vals) + 1)
        fns_t[x] = vid
        sizes_t[vid] = len(pickle.dumps(fn(x)))
    names = clist(f"({cn(kid)}, {cn(name_ids[key_name[kj]])})" for kj, (kid, _x) in univ.items())
    fns = clist(f"({cn(x)}, {cz(v)})" for x, v in sorted(fns_t.items()))
    sizes = clist(f"({cz(v)}, {cnat(s)})" for v, s in sorted(sizes_t.items()))
    stages = []
    for pid, (run, rep) in enumerate(zip(sess["runs"], runs_rep), start=1):
        items = clist(f"({cn(univ[json.dumps(k, sort_keys=True)][0])}, {cn(x)})" for k, x in run["items"])
        if rep.get("status") == "returned" and [kv[0] for kv in rep["value"]] == [k for k, _ in run["items"]]:
            outc = "(Returned " + clist(
                f"({cn(univ[json.dumps(k, sort_keys=True)][0])}, {cz(vals.get(json.dumps(v, sort_keys=True), -1))})" for k, v in rep["value"]) + ")"
        else:
            outc = "Raises" if rep.get("status") == "raised" else "(Returned [(0%N, (-3)%Z)])"
        files = rep.get("files") or {}
        finals = []
        for k, x in run["items"]:
            ent = files.get(final_name(k))
            if isinstance(ent, dict) and "hex" in ent:
                b = bytes.fromhex(ent["hex"])
                own = pickle.dumps(fn(x))
                finals.append((fns_t[x] if own[: len(b)] == b else -1, ent["len"]))
            else:
                finals.append(None if ent is None else (-1, ent.get("len", 0)))
        none_row = clist("None" for _ in run["items"])
        obs = (f"mkObs true {outc} {cn(len(rep.get('calls', [])))} {clist(map(c_oc, finals))} "
               f"{clist(none_row for _ in range(pid))}")
        stages.append(f"({items}, {'RPar' if run['parallel'] else 'RSeq None'}, false, {obs})")
    return f"({names}, {fns}, {sizes}, {clist(stages)})"


def scorr_file(cases: list[str]) -> str:
    return (
        "From MxlBase Require Import ListX.\nFrom CacheFS Require Import CacheFS GenCacheFacts CacheFSRun.\n"
        "Definition cases : list scase := [\n  " + ";\n  ".join(cases) + "\n].\n"
        "Definition mismatches := filter_idx (fun c => negb (scase_ok (cf_save gen_cache_facts) c)) cases.\n"
        "Eval vm_compute in mismatches.\n"
    )


# ---------------------------------------------------------------------------------------
# CUSTOM (name_fn, save_fn, load_fn) triples
# ---------------------------------------------------------------------------------------

CODEC_NAMES = {  # own implementation of the name functions of harness/c19_driver.py::CODECS
    "gz-suffix": lambda k: f"{k!r}.pkl.gz",
    "plain-suffix": lambda k: f"{k!r}.pkl",
    "pandas-gz": lambda k: f"{k!r}.pkl.gz",
    "recording": lambda k: f"r_{k!r}.rec",
    "stamped": lambda k: f"{k!r}.stamped",
}


def make_codec_cfgs(rng, thorough: bool) -> list[dict]:
    ints = [[_ik(i), i + 2] for i in range(4)]
    mixed = [[_sk("a"), 5], [{"t": "tuple", "v": [_ik(1), _sk("u")]}, 6], [{"t": "float", "v": 2.5}, 7], [_ik(-2), 8]]
    cfgs = [
        {"name": "X-gz-suffix-seq", "kind": "map", "fn": "dict", "items": mixed, "parallel": False, "codec": "gz-suffix"},
        {"name": "X-pandas-gz-pool", "kind": "map", "fn": "frame", "items": ints, "parallel": True, "workers": 2, "codec": "pandas-gz"},
        {"name": "X-recording-pool", "kind": "map", "fn": "sq", "items": mixed, "parallel": True, "workers": 2, "codec": "recording"},
        {"name": "X-stamped-seq", "kind": "map", "fn": "tup", "items": ints, "parallel": False, "codec": "stamped"},
        {"name": "X-plain-suffix-seq", "kind": "map", "fn": "text", "items": ints[:2], "parallel": False, "codec": "plain-suffix"},
    ]
    if thorough:
        for r in range(4):
            keys = gen_keyset(rng, rng.randint(1, 5))
            codec = rng.choice(["gz-suffix", "recording", "stamped", "plain-suffix"])
            par = rng.random() < 0.5
            cfgs.append({"name": f"X-rand{r}-{codec}-{'pool' if par else 'seq'}", "kind": "map", "fn": rng.choice(["sq", "affine", "tup", "dict", "text"]),
                         "items": [[k, rng.randint(0, 40)] for k in keys], "parallel": par, "workers": rng.randint(1, 3), "codec": codec})
    return cfgs


def codec_group(cfg: dict, root: Path, gi: int) -> list[dict]:
    d = root / f"codec-{gi}"
    kw = {"codec": cfg["codec"]}
    return [
        scenario(cfg, "unc", d / "cache-unused", d, use_cache=False),
        scenario(cfg, "fresh", d / "cache", d, **kw),
        scenario(cfg, "second", d / "cache", d, **kw),
        scenario(cfg, "second-other", d / "cache", d, parallel=not cfg.get("parallel"), **kw),
    ]


def judge_codec(cfg: dict, reps: list[dict], cache_dir: str) -> tuple[str | None, list[str]]:
    """oracle on a custom triple -> (what is wrong | None, per save event which name save_fn was handed)"""
    unc, fresh = reps[0], reps[1]
    ur = unc.get("result") or {}
    if ur.get("status") != "returned":
        return None, []  # no reference
    name_fn = CODEC_NAMES[cfg["codec"]]
    names = [name_fn(key_py(k)) for k, _ in cfg["items"]]
    observed: list[str] = []
    for rep in reps[1:]:
        r = rep.get("result")
        what = {"fresh": "cached run over a fresh directory", "second": "repeated run", "second-other": "repeated run in the other execution mode",
                "second-newproc": "repeated run in a new interpreter"}.get(rep["id"], rep["id"])
        if r is None or r.get("status") != "returned":
            return f"{what} with the custom triple {cfg['codec']!r} raised {(r or {}).get('exc')}: {(r or {}).get('msg')}", observed
        if r["value"] != ur["value"]:
            return f"{what} with the custom triple {cfg['codec']!r} returned results that differ from the uncached run", observed
        saved_before = {e["name"] for rp in reps[1:] for e in rp.get("rec", []) if e["op"] == "save"}
        for e in rep.get("rec", []):
            if e["op"] == "save":
                kind = "SnFinal" if e["name"] in names else "SnTemp" if any(e["name"].startswith(n + ".") for n in names) else "SnUnknown"
                observed.append(kind)
                if kind != "SnFinal" or os.path.realpath(e["dir"]) != os.path.realpath(cache_dir):
                    return (f"{what}: save_fn was handed the name {e['name']!r} in {e['dir']!r}; load_fn is later handed "
                            f"tmp_dir / name_fn(key) (one of {names[:3]}...)"), observed
            elif e["name"] not in saved_before:
                return f"{what}: load_fn was handed the name {e['name']!r}, which no save_fn call was handed", observed
        if rep["id"] == "fresh":
            if len(rep["calls"]) != len(names):
                return f"fresh run with the custom triple made {len(rep['calls'])} evaluations for {len(names)} keys", observed
            files = rep["files"] if not rep["files"].get("<no-dir>") else {}
            if sorted(files) != sorted(names):
                return f"after the fresh run the directory holds {sorted(files)}, expected exactly the names name_fn gives: {sorted(names)}", observed
        else:
            wrote = [e for e in rep["events"] if e["kind"] != "mkdir"]
            if rep["calls"] or wrote or rep["files"] != fresh["files"]:
                return f"{what} with the custom triple recomputed {len(rep['calls'])} result(s) / touched the directory ({len(wrote)} write events)", observed
            if cfg["codec"] == "recording" and sorted(e["name"] for e in rep.get("rec", []) if e["op"] == "load") != sorted(names):
                return f"{what}: load_fn was not handed exactly the names save_fn had been handed", observed
    return None, observed


def codec_corr_file(observed: list[str]) -> str:
    return (
        "From Coq Require Import List.\nImport ListNotations.\nFrom MxlBase Require Import ListX.\n"
        "From CacheFS Require Import CacheCodec GenCacheFacts CacheFSRun.\n"
        "Definition handed_names : list save_name_kind := [" + "; ".join(observed) + "].\n"
        "Definition mismatches := filter_idx (fun k => negb (save_name_eqb k gen_save_name)) handed_names.\n"
        "Eval vm_compute in mismatches.\n"
    )

# ---------------------------------------------------------------------------------------
# the check
# ---------------------------------------------------------------------------------------


def check(run: Run) -> None:
    thorough = run.tier == "thorough"
    facts = gen()
    NAME_MODE[0] = facts["expected_name"]
    run.coverage["gen_facts"] = facts
    run.rule = (
        "configurations: fixed small key sets (ints; str/tuple/float keys; structured results) + seeded random key sets, "
        "through parallelise(parallel=False), the pebble pool, scan.steady_state/time_course with cache=; for each, the run is "
        "killed before every open/close/replace/mkdir and after EVERY byte of every result file (sampled offsets for the ~2 kB scan "
        "pickles), by os._exit of the process (sequential), of one pool worker, or SIGKILL of the whole process group; then rerun "
        "(sequential or pool) and rerun again; chains kill the rerun too; every event boundary again with file objects that buffer "
        "until close(); a repeated run in a new interpreter with another hash salt.  Keys with quotes/backslashes/control characters, "
        "nested tuples, None, bool, floats, '..', '.', '', NUL, '%' exercise the name function (keys with '/': witness of the recorded finding "
        "or, after the repair, one more kill-point configuration).  SESSIONS: 2-4 runs in one process with ONE Cache object (parallel-parallel-grown, "
        "sequential-parallel-parallel, overlapping key sets, random sub-lists of a random key universe), every run judged against the uncached run and "
        "against 'evaluations = keys not yet on disk', the whole session compared with the small-step model.  CUSTOM TRIPLES: suffix-dependent format, "
        "pandas to_pickle/read_pickle on *.pkl.gz, a recording and a name-stamping writer, sequential / pool / other mode / new interpreter.  "
        "NONE / FALSY RESULTS: fn returning None, 0, '', (), False, 0.0 (two fixed configurations through the repeated-run oracle and the kill points).  LIFE SESSIONS "
        "(own stream c19-life): 3-5 runs in one process, between them the cache directory removed with shutil.rmtree, cache.tmp_dir re-assigned to a nested directory that "
        "does not exist, a new Cache object, a pickled copy of the object (8 fixed histories + random ones), judged like sessions per CURRENT directory and compared with the "
        "big-step model CacheLife.v; scan.steady_state run / repeated / directory removed / run / repeated with one Cache object.  A case is one "
        "kill-then-rerun group, one session, one life session, one scan session or one custom-triple group; a kill group is non-trivial iff the kill really happened mid-run, "
        "a session iff it has at least two runs"
    )
    proofs_ok = run.check_proofs(AREA, PROPS)
    run.assumptions += [
        "Coq 8.16.1 kernel + vm_compute; all C19 theorems closed under the global context (no axioms)",
        "fact extractor harness/c19.py::extract_facts (fail-closed ast matcher: save protocol, name function, _load_or_run shape, wiring); "
        "coq/cachefs/ExpectedFacts.v is a hand-maintained switch (which name function the tree is expected to carry)",
        "modelled, not verified: POSIX rename atomicity (os.replace is one micro-step), open('wb') creates/truncates at once, "
        "a killed process leaves exactly the bytes written so far (process death, not power loss: no fsync semantics), "
        "pickle.load fails on every strict prefix of a pickle and succeeds on the whole, fn deterministic, "
        "pebble pool = arbitrary interleaving of independent _load_or_run calls, temp names never collide with result names",
        "NOT modelled and not claimed: power loss / kernel crash (no fsync step in the model, none in _pickle_save): the model's file system is what the kernel "
        "has been handed, which survives the death of a process but not of the machine",
        "user-space buffering: a flush policy pol (does the write handing over byte j reach the file at once) is universally quantified in the crash theorems; "
        "a multi-byte flush is atomic for its policy (a kill inside it is the kill point of the policy that flushes there); close() drains",
        "default name function: modelled over the key universe of CacheKeys.v (ints, bools, None, floats identified with the literal repr() prints -- float.__repr__ itself "
        "is not modelled, only that the literal is non-empty, over 0-9.e+-infa and not an int literal --, 7-bit str with CPython's quoting/escaping, nested tuples); "
        "numpy scalars, non-ASCII strings and user classes as keys are outside the universe; hash() of str = external salted function",
        ("guard of the positive theorems: distinct keys have distinct file names (complement = known finding C19-name-collision; ExpectedFacts.v = NameStr)"
         if facts["expected_name"] == "NameStr" else
         "ExpectedFacts.v = NameRepr: C19_transparent (no guard on names) applies to the tree; the old f'{k}.p' collision is the regression theorem C19_str_names_collide_refuted"),
        "fault-injection driver harness/c19_driver.py (wrappers around io.open/os.replace/...), correspondence glue CacheFSRun.v, literal printer, coqc output parser",
        "Cache object: modelled WITHOUT state (the small-step model's only input besides the pairs is the directory); tie: fact gen_cache_object (the dataclass has exactly "
        "tmp_dir/name_fn/load_fn/save_fn, no methods, _load_or_run asks file.exists()) + multi-run sessions with one object compared with the model; the memoising object of "
        "C19_listing_memo_refuted is a separate big-step model on file names",
        "custom (name_fn, save_fn, load_fn) triples: big-step model (CacheCodec.v: content written/read as a function of the file NAME handed over), complete runs in parallel=False "
        "order, hypothesis = round trip on one name; no kill points for custom save functions (their atomicity is the user's business); tie: fact gen_save_name + recorded names",
        ("ExpectedFacts.v = NameRepr: a key whose repr contains '/' cannot be cached (recorded finding C19-slash-in-key, fixes/C19-slash-in-key.diff proposed); every other key is covered"
         if facts["expected_name"] == "NameRepr" else
         "ExpectedFacts.v = " + facts["expected_name"]),
        "file-system limits on a name other than the path separator (more than 255 bytes: ENAMETOOLONG) are outside the model",
        "life of a Cache object and its directory: big-step model CacheLife.v (complete runs, whole files, parallel=False order, several directories; events new object / "
        "tmp_dir re-assigned / directory removed / run); which results are None is a parameter (isnone); tie: facts gen_lookup (what _load_or_run takes for 'result available') and "
        "gen_mkdir (where the directory is created) + life sessions on the real code compared event by event with the model; linked to the small-step model by stating the same "
        "counts, not by a refinement proof; evaluations of a run that raised are not compared (pool workers may or may not have started)",
    ]

    rng = common.rng_for(run.seed, "c19")
    root = common.scratch_dir("c19")
    n_drivers = max(2, min(common.NCPU // 2, 8))
    try:
        _check_body(run, rng, root, thorough, n_drivers, proofs_ok)
    finally:
        shutil.rmtree(root, ignore_errors=True)


def _check_body(run: Run, rng, root: Path, thorough: bool, n_drivers: int, proofs_ok: bool) -> None:
    cfgs = make_configs(rng, thorough)
    repaired = NAME_MODE[0] in ("NameRepr", "NameReprEsc")
    slash_repaired = NAME_MODE[0] == "NameReprEsc"
    if repaired:
        # with the repaired names the witness of the former finding is an ordinary configuration: every point
        cfgs.append({**COLLISION_CFG, "points": "all"})
    cfgs.append(SPECIAL_CFG)
    if slash_repaired:
        # with percent-encoded names the keys with a path separator are an ordinary configuration
        cfgs.append(SLASH_CFG)
    cfgs += NONE_CFGS
    known = {f["id"]: f for f in common.load_known_findings(PROP)}
    # own random streams: the new stages leave the kill-point selection of the older ones as it was
    sessions = make_sessions(common.rng_for(run.seed, "c19-sessions"), thorough)
    codec_cfgs = make_codec_cfgs(common.rng_for(run.seed, "c19-codecs"), thorough)
    life = make_life_sessions(common.rng_for(run.seed, "c19-life"), thorough)
    scan_life = [scan_life_group(root, False, 0)] + ([scan_life_group(root, True, 1)] if thorough else [])
    # ---- phase 1: transparency + second run, and the event structure of a clean run ----------
    p1 = [phase1_group(c, root, i) for i, c in enumerate(cfgs)] + [phase1_group(COLLISION_CFG, root, 999)]
    n_p1 = len(p1)
    extra = ([session_group(s, root, i) for i, s in enumerate(sessions)] + [codec_group(c, root, i) for i, c in enumerate(codec_cfgs)]
             + [session_group(s, root, 500 + i) for i, s in enumerate(life)] + scan_life
             + [phase1_group(SLASH_CFG, root, 998)])
    all_reps = run_groups(p1 + extra, root, "p1", n_drivers)
    p1_reps = all_reps[:n_p1]
    sess_reps = all_reps[n_p1 : n_p1 + len(sessions)]
    codec_reps = all_reps[n_p1 + len(sessions) : n_p1 + len(sessions) + len(codec_cfgs)]
    o_life = n_p1 + len(sessions) + len(codec_cfgs)
    life_reps = all_reps[o_life : o_life + len(life)]
    scan_life_reps = all_reps[o_life + len(life) : o_life + len(life) + len(scan_life)]
    slash_reps = all_reps[-1]
    ctxs: list[Ctx | None] = []
    coq_cases: list[tuple[str, str]] = []  # (label, text)
    n_viol = 0
    dist: dict[str, int] = {}
    clean_stages: dict[str, tuple[Ctx, list]] = {}
    name_cases: dict[tuple, str] = {}

    def violation(what: str, cfg: dict, scs: list[dict], meta: dict) -> None:
        nonlocal n_viol
        n_viol += 1
        if n_viol <= 4:
            run.violation(what, {"kind": "group", "config": cfg, "meta": meta, "stages": [_strip(s) for s in scs]})

    for cfg, scs, reps in zip(cfgs, p1[:-1], p1_reps[:-1]):
        unc, fresh, second, second_o = reps
        ctx = Ctx(cfg, unc, fresh)
        ctxs.append(ctx)
        run.count_case(("p1", cfg["name"], cfg.get("items"), cfg.get("to_scan")), nontrivial=True)
        dist["transparency/second-run groups"] = dist.get("transparency/second-run groups", 0) + 1
        if ctx.unc_value is None:
            run.broken_correspondence.append(f"uncached run of {cfg['name']} failed: {unc.get('result')}")
            continue
        if cfg["kind"] == "map" and ctx.unc_value != ctx.expected:
            # not C19's business (the reference of the property is the uncached run), but say so
            run.note(f"{cfg['name']}: uncached parallelise returned {ctx.unc_value}; an independent evaluation of fn gives {ctx.expected}")
            dist["uncached_differs_from_independent_evaluation"] = dist.get("uncached_differs_from_independent_evaluation", 0) + 1
        for rep, nm in ((fresh, "cached run over a fresh directory"), (second, "repeated run"), (second_o, "repeated run in the other execution mode")):
            bad = ctx.result_ok(rep)
            if bad:
                violation(f"{cfg['name']}: {nm}: {bad}", cfg, scs, {"mode": "transparency"})
        if len(fresh["calls"]) != len(ctx.keys):
            violation(f"{cfg['name']}: fresh cached run made {len(fresh['calls'])} calls for {len(ctx.keys)} keys", cfg, scs, {"mode": "transparency"})
        for rep, nm in ((second, "repeated run"), (second_o, "repeated run (other mode)")):
            wrote = [e for e in rep["events"] if e["kind"] != "mkdir"]
            if rep["calls"] or wrote or rep["files"] != fresh["files"]:
                violation(f"{cfg['name']}: {nm} recomputed {len(rep['calls'])} result(s) / touched the directory ({len(wrote)} write events)", cfg, scs, {"mode": "second-run"})
        # the files on disk hold the results (observe_at: files under tmp_dir)
        if cfg["kind"] == "map":
            for i, f in enumerate(ctx.finals):
                ent = fresh["files"].get(f)
                if not isinstance(ent, dict) or "hex" not in ent or o_canon(pickle.loads(bytes.fromhex(ent["hex"]))) != ctx.expected[i][1]:
                    run.broken_correspondence.append(f"{cfg['name']}: after a clean run the file {f!r} does not hold the pickled result of key #{i}")
        clean_stages[cfg["name"]] = (ctx, [(scs[1], fresh), (scs[2], second), (scs[3], second_o)])
        # the file name in use for every key against the model of str()/repr()
        if cfg["kind"] == "map":
            for i, (k, f) in enumerate(zip(ctx.keys, ctx.finals)):
                if ctx.sizes[i] is not None and all(ord(c) < 128 for c in f):
                    name_cases.setdefault((json.dumps(k, sort_keys=True), f), f"({coq_key(k)}, {coq_string(f)})")
    run.sample({"config": cfgs[0], "clean_run_events": [(e["kind"], e["path"], e["n"]) for e in p1_reps[0][1]["events"]]})

    # ---- a repeated run in a NEW interpreter (other string-hash salt) must hit the disk too ----
    np_idx = [i for i, c in enumerate(cfgs) if c["kind"] == "map" and ctxs[i] is not None and ctxs[i].unc_value is not None][:5]
    if np_idx:
        np_scs = [scenario(cfgs[i], "second-newproc", root / f"p1-{i}" / "cache", root / f"p1-{i}") for i in np_idx]
        try:
            np_reps = run_driver(np_scs, root, "p1-newproc", hashseed="4242")
        except Exception as e:  # noqa: BLE001
            run.broken_correspondence.append(f"new-interpreter rerun driver failed: {type(e).__name__}: {e}")
            np_reps = []
        for i, sc, rep in zip(np_idx, np_scs, np_reps):
            dist["new-interpreter reruns"] = dist.get("new-interpreter reruns", 0) + 1
            run.count_case(("p1-newproc", cfgs[i]["name"]), nontrivial=True)
            bad = ctxs[i].result_ok(rep)
            if bad:
                violation(f"{cfgs[i]['name']}: repeated run in a new interpreter (PYTHONHASHSEED=4242): {bad}", cfgs[i], [p1[i][1], sc], {"mode": "second-run-new-interpreter"})
            elif rep["calls"]:
                violation(f"{cfgs[i]['name']}: repeated run in a new interpreter (PYTHONHASHSEED=4242) recomputed {len(rep['calls'])} result(s) instead of reading them from disk",
                          cfgs[i], [p1[i][1], sc], {"mode": "second-run-new-interpreter"})
            if cfgs[i]["name"] in clean_stages:
                clean_stages[cfgs[i]["name"]][1].append((sc, rep))
    for nm, (ctx, stages) in clean_stages.items():
        text, probs = coq_case(ctx, stages)
        for pb in probs:
            run.broken_correspondence.append(f"{nm}: {pb}")
        coq_cases.append((f"{nm}/clean", text))

    # ---- sessions: ONE Cache object for several runs in one process -----------------------------
    scases: list[tuple[str, str]] = []
    for gi, (sess, reps) in enumerate(zip(sessions, sess_reps)):
        bad, runs_rep = judge_session(sess, reps)
        dist["sessions (one Cache object, several runs)"] = dist.get("sessions (one Cache object, several runs)", 0) + 1
        dist["session runs"] = dist.get("session runs", 0) + len(sess["runs"])
        run.count_case(("session", sess["name"], json.dumps(sess["runs"], sort_keys=True)), nontrivial=len(sess["runs"]) >= 2)
        if bad:
            n_viol += 1
            if n_viol <= 4:
                run.violation(f"{sess['name']}: {bad}", {"kind": "session", "session": sess})
        if runs_rep is not None:
            try:
                scases.append((sess["name"], coq_scase(sess, runs_rep)))
            except Exception as e:  # noqa: BLE001
                run.broken_correspondence.append(f"session {sess['name']}: cannot encode the observation for the model: {type(e).__name__}: {e}")
        elif not bad:
            run.note(f"session {sess['name']}: the uncached run differs from an independent evaluation of fn; no verdict")
    if sessions:
        run.sample({"session": sessions[0], "runs": [{k: r.get(k) for k in ("status", "calls")} | {"files": sorted(r.get("files", {}))}
                                                     for r in ((sess_reps[0][1].get("result") or {}).get("value") or []) if isinstance(r, dict)]})

    # ---- life of a Cache object and its directory: None / falsy results, wiped / re-targeted directories, new objects --
    lcases: list[tuple[str, str]] = []
    for sess, reps in zip(life, life_reps):
        bad, runs_rep = judge_session(sess, reps)
        dist["life sessions (None/falsy results, wipe, retarget, new object, pickled copy)"] = dist.get("life sessions (None/falsy results, wipe, retarget, new object, pickled copy)", 0) + 1
        dist["life session runs"] = dist.get("life session runs", 0) + len(sess["runs"])
        run.count_case(("life", sess["name"], json.dumps(sess["runs"], sort_keys=True)), nontrivial=len(sess["runs"]) >= 2)
        if bad:
            n_viol += 1
            if n_viol <= 4:
                run.violation(f"{sess['name']}: {bad}", {"kind": "session", "session": sess})
        if runs_rep is not None:
            try:
                lcases.append((sess["name"], coq_lcase(sess, runs_rep)))
            except Exception as e:  # noqa: BLE001
                run.broken_correspondence.append(f"life session {sess['name']}: cannot encode the observation for the model: {type(e).__name__}: {e}")
        elif not bad:
            run.note(f"life session {sess['name']}: the uncached run differs from an independent evaluation of fn; no verdict")
    for g, reps in zip(scan_life, scan_life_reps):
        bad = judge_scan_life(reps)
        dist["scan.steady_state sessions with a wiped cache directory"] = dist.get("scan.steady_state sessions with a wiped cache directory", 0) + 1
        run.count_case(("scan-life", g[1]["parallel"]), nontrivial=True)
        if bad:
            n_viol += 1
            if n_viol <= 4:
                run.violation(f"L-scan-ss-{'pool' if g[1]['parallel'] else 'seq'}: {bad}", {"kind": "scanlife", "parallel": g[1]["parallel"]})

    # ---- custom (name_fn, save_fn, load_fn) triples ---------------------------------------------
    handed: list[str] = []
    np_scs = [scenario(c, "second-newproc", root / f"codec-{i}" / "cache", root / f"codec-{i}", codec=c["codec"]) for i, c in enumerate(codec_cfgs)]
    try:
        np_codec = run_driver(np_scs, root, "codec-newproc", hashseed="4242") if np_scs else []
    except Exception as e:  # noqa: BLE001
        run.broken_correspondence.append(f"new-interpreter rerun driver (custom triples) failed: {type(e).__name__}: {e}")
        np_codec = [None] * len(np_scs)
    for gi, (cfg, reps) in enumerate(zip(codec_cfgs, codec_reps)):
        reps = list(reps) + ([np_codec[gi]] if np_codec[gi] is not None else [])
        bad, obs = judge_codec(cfg, reps, str(root / f"codec-{gi}" / "cache"))
        handed += obs
        dist["custom-triple groups"] = dist.get("custom-triple groups", 0) + 1
        run.count_case(("codec", cfg["name"], json.dumps(cfg["items"], sort_keys=True)), nontrivial=True)
        if bad:
            n_viol += 1
            if n_viol <= 4:
                run.violation(f"{cfg['name']}: {bad}", {"kind": "codec", "config": cfg})

    # ---- keys with a path separator in their printed form ----------------------------------------
    if not slash_repaired:
        s_ok, s_detail = slash_reproduces(slash_reps)
        run.count_case(("slash", "witness"), nontrivial=True)
        fr = slash_reps[1].get("result") or {}
        if s_ok and fr.get("status") == "raised" and fr.get("exc") == "FileNotFoundError":
            # the recorded shape: the save into a sub-directory that does not exist
            if SLASH_FID not in known:
                run.note(f"keys with '/' cannot be cached but known_findings.json has no entry {SLASH_FID} (run tools/mkmanifest.py)")
            run.known(SLASH_FID, f"str keys 'ATP/ADP', ('x/y', 1), '/abs', '../up': {s_detail}")
        else:
            # any OTHER behaviour on these keys is judged like every configuration (e.g. a name function that
            # maps '/' to something another key already uses)
            if SLASH_FID in known:
                run.note(f"known finding {SLASH_FID} no longer reproduces in its recorded form ({s_detail}): if fixes/C19-slash-in-key.diff was applied run tools/c19_switch.py slash repaired <commit>")
            s_scs = phase1_group(SLASH_CFG, root, 998)
            s_ctx = Ctx(SLASH_CFG, slash_reps[0], slash_reps[1])
            if s_ctx.unc_value is not None:
                for rep, nm in zip(slash_reps[1:], ("cached run over a fresh directory", "repeated run", "repeated run in the other execution mode")):
                    bad = s_ctx.result_ok(rep)
                    if bad:
                        violation(f"{SLASH_CFG['name']}: {nm}: {bad}", SLASH_CFG, s_scs, {"mode": "transparency"})
                        break
                    want_calls = len(s_ctx.keys) if rep["id"] == "fresh" else 0
                    if len(rep["calls"]) != want_calls:
                        violation(f"{SLASH_CFG['name']}: {nm} made {len(rep['calls'])} evaluations, expected {want_calls}", SLASH_CFG, s_scs, {"mode": "transparency"})
                        break
    elif SLASH_FID in known:
        run.note(f"ExpectedFacts.v says NameReprEsc but known_findings.json still lists {SLASH_FID} (run tools/c19_switch.py slash repaired <commit>)")

    # ---- known finding: two keys with the same file name ---------------------------------------
    col_reps = p1_reps[-1]
    rep_ok, detail = collision_reproduces(col_reps)
    if not repaired:
        if "C19-name-collision" in known:
            if rep_ok:
                run.known("C19-name-collision", f"keys 1 and '1' share the file '1.p': {detail}")
            else:
                run.note(f"known finding C19-name-collision no longer reproduces ({detail}): if fixes/C19-name-fn.diff was applied run tools/c19_switch.py repaired <commit>")
        elif rep_ok:
            run.note("name collision reproduces but known_findings.json has no entry C19-name-collision (run tools/mkmanifest.py)")
            run.known("C19-name-collision", f"keys 1 and '1' share the file '1.p': {detail}")
        if rep_ok:
            # the model shows the same behaviour (both keys mapped to one name id)
            cctx = Ctx(COLLISION_CFG, col_reps[0], col_reps[1])
            text, _ = coq_case(cctx, [(p1[-1][1], col_reps[1])])
            coq_cases.append(("K-collision/clean", text))
    elif "C19-name-collision" in known:
        run.note("ExpectedFacts.v says NameRepr but known_findings.json still lists C19-name-collision (run tools/c19_switch.py repaired <commit>)")

    # ---- phase 2: kill, rerun, rerun ------------------------------------------------------------
    groups: list[tuple[int, dict, list[dict]]] = []
    for ci, (cfg, reps) in enumerate(zip(cfgs, p1_reps[:-1])):
        if ctxs[ci] is None or ctxs[ci].unc_value is None:
            continue
        for meta, g in phase2_groups(cfg, reps[1], root, ci, rng, thorough):
            groups.append((ci, meta, g))
    t0 = time.time()
    g_reps = run_groups([g for _, _, g in groups], root, "p2", n_drivers)
    run.coverage["fault_injection_wall_s"] = round(time.time() - t0, 1)
    kinds: dict[str, int] = {}
    not_killed = 0
    for (ci, meta, scs), reps in zip(groups, g_reps):
        ctx = ctxs[ci]
        bad, killed = judge_group(ctx, meta, scs, reps)
        lab = f"{meta['mode']}:{meta['point'][2]}"
        kinds[lab] = kinds.get(lab, 0) + 1
        run.count_case((meta, cfgs[ci]["name"]), nontrivial=killed)
        if not killed:
            not_killed += 1
            if meta["mode"] in ("seq", "pool-exit", "seq-buffered", "pool-exit-buffered"):
                run.broken_correspondence.append(f"{cfgs[ci]['name']}: planned kill at {meta['point']} was never reached (event structure of the run is not reproducible)")
        if bad:
            violation(f"{cfgs[ci]['name']}: {bad}", cfgs[ci], scs, meta)
        if not meta.get("no_corr"):
            text, probs = coq_case(ctx, list(zip(scs, reps)))
            for pb in probs[:2]:
                run.broken_correspondence.append(f"{cfgs[ci]['name']} {meta}: {pb}")
            coq_cases.append((f"{cfgs[ci]['name']}/{meta['mode']}/{meta['point']}", text))
    if groups:
        run.sample({"group": groups[len(groups) // 2][1], "reports": [{k: r.get(k) for k in ("id", "exit", "result", "calls", "files")} for r in g_reps[len(groups) // 2]]})
    run.coverage["input_distribution"] = {
        "configs": [{k: c.get(k) for k in ("name", "kind", "fn", "parallel", "points")} | {"n_keys": len(cfg_keys(c))} for c in cfgs],
        "kill_points_by_kind": kinds,
        "groups": len(groups),
        "kills_not_reached": not_killed,
        **dist,
    }

    # ---- correspondence inside Coq --------------------------------------------------------------
    files = {f"c19_{k:03d}": corr_file([t for _, t in chunk]) for k, chunk in enumerate(common.chunks(coq_cases, 150))}
    nkeys = list(name_cases)
    if nkeys:
        files["c19names"] = names_file([name_cases[k] for k in nkeys])
    if scases:
        files["c19sessions"] = scorr_file([t for _, t in scases])
    if handed:
        files["c19codec"] = codec_corr_file(handed)
    if lcases:
        files["c19life"] = lcorr_file([t for _, t in lcases])
    res = common.coq_eval_many(AREA, files, timeout_s=600)
    mism = 0
    for fname, label, items in (("c19sessions", "session", [n for n, _ in scases]), ("c19codec", "name handed to a custom save_fn, save event", handed),
                                ("c19life", "life session (big-step model CacheLife.v)", [n for n, _ in lcases])):
        if fname not in files:
            continue
        ok, out = res[fname]
        lists = common.parse_eval_list(out) if ok else None
        if not ok or not lists:
            run.broken_correspondence.append(f"correspondence file {fname} did not evaluate: {out[-300:]}")
        else:
            for j in lists[-1][:5]:
                run.broken_correspondence.append(f"model/implementation disagree on {label} #{j} ({items[j]})")
            run.coverage[f"{fname}_validated_against_impl"] = len(items) - len(lists[-1])
        del files[fname]
    if nkeys:
        ok, out = res["c19names"]
        lists = common.parse_eval_list(out) if ok else None
        if not ok or not lists:
            run.broken_correspondence.append(f"name-function correspondence did not evaluate: {out[-300:]}")
        else:
            for j in lists[-1][:5]:
                run.broken_correspondence.append(f"default name function: model and implementation disagree on key {nkeys[j][0]} (file in use: {nkeys[j][1]!r})")
            run.coverage["names_validated_against_impl"] = len(nkeys) - len(lists[-1])
        del files["c19names"]
    for k, name in enumerate(sorted(files)):
        ok, out = res[name]
        lists = common.parse_eval_list(out) if ok else None
        if not ok or not lists:
            run.broken_correspondence.append(f"correspondence shard {name} did not evaluate: {out[-300:]}")
            continue
        for j in lists[-1]:
            mism += 1
            if mism <= 5:
                run.broken_correspondence.append(f"model/implementation disagree on {coq_cases[k * 150 + j][0]}")
    run.coverage["traces_validated_against_impl"] = len(coq_cases) - mism
    run.coverage["correspondence_mismatches"] = mism
    if not proofs_ok:
        run.note("proof obligations broken; every kill point above was judged by the oracle on the real code")


def _strip(sc: dict) -> dict:
    return {k: v for k, v in sc.items() if k not in ("cache_dir", "side")}


# ---------------------------------------------------------------------------------------
# replay
# ---------------------------------------------------------------------------------------


def replay(rep: dict) -> int:
    r = rep.get("replay", {})
    if r.get("kind") not in ("group", "session", "codec", "scanlife"):
        print("nothing to replay:", rep.get("what"))
        return 1
    NAME_MODE[0] = expected_name_kind()
    root = common.scratch_dir("c19replay")
    if r["kind"] == "session":
        try:
            sess = r["session"]
            reps = run_driver(session_group(sess, root, 0), root, "rs")
            bad, runs_rep = judge_session(sess, reps)
            for i, rr in enumerate(runs_rep or []):
                print(f"run #{i}: before={sess['runs'][i].get('before') or []} parallel={sess['runs'][i]['parallel']} keys={len(sess['runs'][i]['items'])} status={rr.get('status')} {rr.get('exc', '')} "
                      f"evaluated={sorted(rr.get('calls', []))} files={sorted(rr.get('files', {}))}")
            print("oracle:", f"property VIOLATED on this input: {bad}" if bad else "property holds on this input")
            return 1 if bad else 0
        finally:
            shutil.rmtree(root, ignore_errors=True)
    if r["kind"] == "scanlife":
        try:
            reps = run_driver(scan_life_group(root, bool(r.get("parallel")), 0), root, "rl")
            bad = judge_scan_life(reps)
            for i, rr in enumerate((reps[1].get("result") or {}).get("value") or []):
                print(f"scan #{i}: status={rr.get('status')} {rr.get('exc', '')} worker calls={len(rr.get('calls', []))} files={rr.get('files')}")
            print("oracle:", f"property VIOLATED on this input: {bad}" if bad else "property holds on this input")
            return 1 if bad else 0
        finally:
            shutil.rmtree(root, ignore_errors=True)
    if r["kind"] == "codec":
        try:
            cfg = r["config"]
            reps = run_driver(codec_group(cfg, root, 0), root, "rc")
            reps.append(run_driver([scenario(cfg, "second-newproc", root / "codec-0" / "cache", root / "codec-0", codec=cfg["codec"])], root, "rc2", hashseed="4242")[0])
            bad, obs = judge_codec(cfg, reps, str(root / "codec-0" / "cache"))
            for rp in reps:
                print(f"stage {rp['id']}: result={json.dumps(rp.get('result'))[:200]} calls={len(rp['calls'])} files={sorted(rp['files'])} "
                      f"handed={[(e['op'], e['name']) for e in rp.get('rec', [])][:6]}")
            print("oracle:", f"property VIOLATED on this input: {bad}" if bad else "property holds on this input")
            return 1 if bad else 0
        finally:
            shutil.rmtree(root, ignore_errors=True)
    cfg = r["config"]
    try:
        base = phase1_group(cfg, root, 0)
        reps1 = run_driver(base, root, "r1")
        ctx = Ctx(cfg, reps1[0], reps1[1])
        d = root / "g"
        scs = []
        for s in r["stages"]:
            s = dict(s)
            s["cache_dir"] = str(d / ("cache-unused" if s.get("use_cache") is False else "cache"))
            s["side"] = str(d / s["id"])
            scs.append(s)
        reps = run_driver(scs, root, "r2")
        failed = False
        for sc, rp in zip(scs, reps):
            print(f"stage {sc['id']}: plan={sc.get('plan')} exit={rp.get('exit')} result={json.dumps(rp.get('result'))[:300]} "
                  f"calls={len(rp['calls'])} files={ {k: (v['len'] if isinstance(v, dict) else v) for k, v in rp['files'].items()} }")
            if sc.get("plan") is None:
                bad = ctx.result_ok(rp)
                if sc.get("use_cache") is False:
                    bad = None if (rp.get("result") or {}).get("value") == (ctx.expected if cfg["kind"] == "map" else ctx.unc_value) else "uncached result wrong"
                if not bad and sc["id"] in ("second", "second-other", "rerun2") and rp["calls"]:
                    bad = f"recomputed {len(rp['calls'])} result(s)"
                if bad:
                    print("  ORACLE:", bad)
                    failed = True
        print("oracle:", "property VIOLATED on this input" if failed else "property holds on this input")
        return 1 if failed else 0
    finally:
        shutil.rmtree(root, ignore_errors=True)
