"""C16 -- histories of operations on ONE LinearLabelMapper object (closing pass for seeded C16-9).

The label counts and atom maps are public, mutable fields of the mapper.  A caller builds the label model, changes a map or a
count ON THE MAPPER (`mapper.label_maps[r] = [...]`, `mapper.label_maps[r][:] = [...]`, `mapper.label_variables[c] = n`, a whole
new dict), possibly moves to another steady state, and builds again.  After every step the property is judged exactly as for a
single build (harness/c16.py::oracle_steady): the linear model the LIVE mapper returns against the isotopomer model a FRESH
LabelMapper builds from the harness' own record of the current counts and maps (the harness never shares a container with the
mapper: inputs are values).  Every build_model call of the live mapper is logged with its outcome; the log is the correspondence
case for `lin_session` (coq/label/LinSession.v).

Random stream: "c16-session" (own stream: the single-build families of c16.py see the same inputs as before).
"""

from __future__ import annotations

from fractions import Fraction
from typing import Any

from harness import c05_label as L
from harness import common
from harness.common import cq

MAX_SUBSTRATE_ATOMS = 6


def _copy_maps(maps: dict) -> dict:
    return {k: list(v) for k, v in maps.items()}


def map_size(lv: dict, s: list[str], p: list[str]) -> int:
    return max(sum(lv[c] for c in s), sum(lv[c] for c in p))


def new_perm(rng, n: int, old: list[int] | None) -> list[int]:
    m = list(range(n))
    for _ in range(8):
        rng.shuffle(m)
        if n < 2 or m != old:
            break
    return m


def counts_ok(lv: dict, rxns) -> bool:
    return all(sum(lv[c] for c in s) <= MAX_SUBSTRATE_ATOMS for _n, s, _p, _v in rxns)


# the history of seeded/C16-9's demonstration (-> A(3) -> B(3) -> C(2) ->, identity maps; a map replaced under its key, a map
# edited in place, a new dict) and two minimal ones; run first on every run
SESSION_CORPUS = [
    {"template": "session-corpus-chain",
     "net": {"template": "session-corpus-chain",
             "rxns": [("v40", [], ["c1"], 2), ("v41", ["c1"], ["c2"], 2), ("v42", ["c2"], ["c3"], 2), ("v43", ["c3"], [], 2)],
             "pools": {"c1": 2, "c2": 1, "c3": 4}, "lv": {"c1": 3, "c2": 3, "c3": 2},
             "maps": {"v40": [0, 1, 2], "v41": [0, 1, 2], "v42": [0, 1, 2], "v43": [0, 1]}},
     "steps": [["build"], ["steady", {"c1": 1, "c2": 2, "c3": 4}, 2], ["build"], ["setmap", "v41", [1, 2, 0]], ["build"],
               ["editmap", "v42", [2, 0, 1]], ["build"],
               ["newmaps", {"v40": [0, 1, 2], "v41": [2, 0, 1], "v42": [1, 2, 0], "v43": [1, 0]}], ["build"]]},
    {"template": "session-corpus-3cycle",
     "net": {"template": "session-corpus-3cycle", "rxns": [("v40", [], ["c1"], 1), ("v41", ["c1"], ["c2"], 1), ("v42", ["c2"], [], 1)],
             "pools": {"c1": 1, "c2": 1}, "lv": {"c1": 3, "c2": 3}, "maps": {"v40": [0, 1, 2], "v41": [0, 1, 2], "v42": [0, 1, 2]}},
     "steps": [["build"], ["editmap", "v41", [1, 2, 0]], ["build"]]},
    {"template": "session-corpus-count",
     "net": {"template": "session-corpus-count", "rxns": [("v40", [], ["c1"], 1), ("v41", ["c1"], ["c2"], 1), ("v42", ["c2"], [], 1)],
             "pools": {"c1": 2, "c2": 1}, "lv": {"c1": 2, "c2": 2}, "maps": {"v40": [1, 0], "v41": [0, 1], "v42": [0, 1]}},
     "steps": [["build"], ["setcount", "c2", 3], ["editmap", "v41", [2, 0, 1]], ["setmap", "v42", [1, 2, 0]], ["build"],
               ["newcounts", {"c1": 1, "c2": 1}], ["editmap", "v40", [0]], ["editmap", "v41", [0]], ["editmap", "v42", [0]], ["build"]]},
]


def gen_lin_session(rng, gen_steady, gen_coef_steady) -> dict:
    net = gen_steady(rng) if rng.random() < 0.7 else gen_coef_steady(rng)
    net = {k: v for k, v in net.items() if k != "dists"}
    rxns = net["rxns"]
    lv, maps = dict(net["lv"]), _copy_maps(net["maps"])
    steps: list[list[Any]] = [["build"]]

    def remap(names, how: str | None = None) -> None:
        for name, s, p, _v in rxns:
            if name in names:
                m = new_perm(rng, map_size(lv, s, p), maps.get(name))
                maps[name] = m
                steps.append([how or rng.choice(["setmap", "editmap"]), name, list(m)])

    for _ in range(rng.randint(1, 3)):
        kind = rng.choice(["setmap", "setmap", "editmap", "editmap", "setcount", "setcount", "newmaps", "newcounts", "steady", "two"])
        names = [r[0] for r in rxns]
        if kind in ("setmap", "editmap"):
            remap([rng.choice(names)], kind)
        elif kind == "two":
            remap(rng.sample(names, min(2, len(names))))
        elif kind == "setcount":
            c = rng.choice(sorted(lv))
            cand = [n for n in (1, 2, 3) if n != lv[c] and counts_ok({**lv, c: n}, rxns)]
            if cand:
                lv[c] = rng.choice(cand)
                steps.append(["setcount", c, lv[c]])
                remap([name for name, s, p, _v in rxns if c in s or c in p])
            else:
                remap([rng.choice(names)])
        elif kind == "newmaps":
            for name, s, p, _v in rxns:
                maps[name] = new_perm(rng, map_size(lv, s, p), maps.get(name))
            items = list(maps.items())
            rng.shuffle(items)
            maps = dict(items)
            steps.append(["newmaps", _copy_maps(maps)])
        elif kind == "newcounts":
            for _try in range(6):
                cand_lv = {c: rng.choice([1, 1, 2, 2, 3]) for c in lv}
                if counts_ok(cand_lv, rxns):
                    lv = cand_lv
                    break
            steps.append(["newcounts", dict(lv)])
            remap(names)
        else:  # another steady state of the same network, nothing about the mapper changes
            steps.append(["steady", {c: rng.choice([1, 2, 4, 8]) for c in net["pools"]}, rng.choice([1, 2, 3])])
        if rng.random() < 0.25:
            steps.append(["steady", {c: rng.choice([1, 2, 4, 8]) for c in net["pools"]}, rng.choice([1, 2])])
        steps.append(["build"])
    return {"template": "session-" + net.get("template", "?"), "net": net, "steps": steps}


def one_hot_distribution(rng, net: dict) -> dict[str, int]:
    """Every compound's whole pool in ONE isotopomer with exactly one labelled position (tells any two different atom maps apart
    wherever the labelled position is one they disagree on)."""
    st = {}
    for c, n in net["lv"].items():
        names = L.iso_names(c, n)
        for k in names:
            st[k] = 0
        i = rng.randrange(n)
        st[c + "__" + "".join("1" if j == i else "0" for j in range(n))] = net["pools"][c]
    return st


def run_lin_session(sess: dict, rng, oracle_steady, steady_models, gen_distribution, exts, stored: dict | None = None):
    """-> (bad [(what, finding id)], log, fields_after, dists_used, stats)
    log: list of ("edit", step) | ("build", concs, fluxes, ext, outcome) in the order things happened to the live mapper."""
    import pandas as pd

    from mxlpy import LinearLabelMapper

    net0 = sess["net"]
    rxns0 = [tuple(r) for r in net0["rxns"]]
    cur = {"lv": dict(net0["lv"]), "maps": _copy_maps(net0["maps"]), "pools": dict(net0["pools"]), "scale": 1}
    log: list[tuple] = []
    stats = {"builds": 0, "build_steps": 0, "twin_differs": 0, "edits": 0}

    def current_net() -> dict:
        return {"template": sess["template"], "rxns": [(n, s, p, v * cur["scale"]) for n, s, p, v in rxns0], "pools": dict(cur["pools"]),
                "lv": dict(cur["lv"]), "maps": _copy_maps(cur["maps"])}

    # the live mapper: its base model is the FIRST steady state's model (build_model only reads the stoichiometries from it)
    tag, val = L.guarded(lambda: steady_models({**net0, "rxns": rxns0}, 1))
    if tag != "ok":
        return [(f"{sess['template']}: the initial network is rejected: {val}", None)], log, None, {}, stats
    mapper = LinearLabelMapper(val[0], label_variables=dict(net0["lv"]), label_maps=_copy_maps(net0["maps"]))

    def builder(net: dict, ext):
        base, iso, lin_fresh = steady_models(net, ext)
        concs = {c: Fraction(v) for c, v in net["pools"].items()}
        fluxes = {name: Fraction(v) for name, _s, _p, v in net["rxns"]}
        stats["builds"] += 1
        try:
            lin = mapper.build_model(
                pd.Series({c: float(v) for c, v in concs.items()}, dtype=float),
                pd.Series({k: float(v) for k, v in fluxes.items()}, dtype=float),
                external_label=float(ext),
            )
        except Exception as e:  # noqa: BLE001
            log.append(("build", concs, fluxes, Fraction(ext), ("err", common.classify_exception(e))))
            raise
        canon = L.canon_model(lin)
        log.append(("build", concs, fluxes, Fraction(ext), ("ok", canon)))
        if canon != L.canon_model(lin_fresh):
            stats["twin_differs"] += 1
        return base, iso, lin

    bad: list[tuple[str, str | None]] = []
    dists_used: dict[str, list] = {}
    nb = 0
    for step in sess["steps"]:
        kind = step[0]
        if kind == "build":
            net = current_net()
            key = str(nb)
            if stored is not None and key in stored:
                dists = stored[key]
            else:
                dists = [one_hot_distribution(rng, net) for _ in range(2)] + [gen_distribution(rng, net) for _ in range(2)]
            dists_used[key] = dists
            nb += 1
            stats["build_steps"] += 1
            for what, fid in oracle_steady(net, dists, exts=exts, builder=builder):
                bad.append((f"after the operations {_prefix(sess['steps'], nb)} on ONE LinearLabelMapper (build #{nb}): {what}", fid))
            if bad:
                break
            continue
        stats["edits"] += int(kind != "steady")
        if kind == "editmap" and step[1] not in mapper.label_maps:
            # only possible when an earlier build_model call removed the entry from the mapper's own dict
            bad.append((f"after the operations {_prefix(sess['steps'], nb)} on ONE LinearLabelMapper the map of {step[1]} is gone from the "
                        f"mapper's label_maps (now {dict(mapper.label_maps)}): build_model must not write the mapper's fields", None))
            break
        if kind == "setmap":
            mapper.label_maps[step[1]] = list(step[2])
            cur["maps"][step[1]] = list(step[2])
        elif kind == "editmap":
            mapper.label_maps[step[1]][:] = list(step[2])
            cur["maps"][step[1]] = list(step[2])
        elif kind == "setcount":
            mapper.label_variables[step[1]] = int(step[2])
            cur["lv"][step[1]] = int(step[2])
        elif kind == "newmaps":
            mapper.label_maps = _copy_maps(step[1])
            cur["maps"] = _copy_maps(step[1])
        elif kind == "newcounts":
            mapper.label_variables = dict(step[1])
            cur["lv"] = dict(step[1])
        elif kind == "steady":
            cur["pools"] = dict(step[1])
            cur["scale"] = int(step[2])
            continue
        log.append(("edit", step))
    try:
        after = (dict(mapper.label_variables), {k: [common.exact_int(i) for i in v] for k, v in mapper.label_maps.items()})
    except Exception:  # noqa: BLE001
        after = None
    if after is not None and not bad and (after[0] != cur["lv"] or after[1] != cur["maps"] or list(after[0]) != list(cur["lv"]) or list(after[1]) != list(cur["maps"])):
        stats["fields_changed"] = 1
    return bad, log, after, dists_used, stats


def _prefix(steps: list, nb: int) -> list:
    out, k = [], 0
    for s in steps:
        out.append(s)
        if s[0] == "build":
            k += 1
            if k == nb:
                break
    return out


# ---------------------------------------------------------------------------------------
# correspondence
# ---------------------------------------------------------------------------------------


def _qmap(d: dict) -> str:
    return common.clist(f"({common.cn(L.num(k))}, {cq(Fraction(v))})" for k, v in d.items())


def coq_lin_session(sess: dict, log: list, after, stoich_of) -> str | None:
    if after is None:
        return None
    net = sess["net"]
    rx = common.clist(
        f"mkBR {common.cn(L.num(name))} FProd {common.clist(common.cn(L.num(a)) for a in [*s, f'p{20 + j}'])} "
        + common.clist(f"({common.cn(L.num(k))}, {common.cz(v)})" for k, v in stoich_of(list(s), list(p)).items())
        for j, (name, s, p, _v) in enumerate(net["rxns"])
    )
    ops, built = [], []
    for entry in log:
        if entry[0] == "edit":
            st = entry[1]
            if st[0] in ("setmap", "editmap"):
                ops.append(f"LSetMap {common.cn(L.num(st[1]))} {common.clist(common.cz(i) for i in st[2])}")
            elif st[0] == "setcount":
                if st[2] < 0:
                    return None
                ops.append(f"LSetCount {common.cn(L.num(st[1]))} {common.cnat(int(st[2]))}")
            elif st[0] == "newmaps":
                ops.append(f"LNewMaps {L.coq_maps(st[1])}")
            elif st[0] == "newcounts":
                ops.append(f"LNewCounts {L.coq_lv(st[1])}")
            else:
                return None
        else:
            _b, concs, fluxes, ext, out = entry
            r = L.coq_result(out, "lin", "Q")
            if r is None:
                return None
            ops.append(f"LBuild (mkBA None {_qmap(concs)} {_qmap(fluxes)} {cq(ext)})")
            built.append(r)
    return (
        f"mkLinSess {L.coq_lv(net['lv'])} {L.coq_maps(net['maps'])}\n    {rx}\n    {common.clist(ops)}\n    {common.clist(built)}\n    "
        f"{L.coq_lv(after[0])} {L.coq_maps(after[1])}"
    )


def corr_file(cases: list[str]) -> str:
    defs = "\n".join(f"Definition sess_{i} : lin_sess_case :=\n  {c}." for i, c in enumerate(cases))
    return (
        "From Coq Require Import List ZArith NArith QArith.\nFrom MxlBase Require Import ListX.\n"
        "From Label Require Import LModel Iso Linear LinSession GenLabelFacts Exec.\nImport ListNotations.\nOpen Scope Q_scope.\n"
        + defs
        + "\nDefinition cases : list lin_sess_case := "
        + common.clist(f"sess_{i}" for i in range(len(cases)))
        + ".\nDefinition mismatches := filter_idx (fun c => negb (check_lin_sess gen_lin_cache (f_lin_expand gen_label_facts) "
        "(f_lin_dir gen_label_facts) c)) cases.\nEval vm_compute in mismatches.\n"
    )
