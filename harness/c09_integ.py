"""Exact integrator handed to the scans as `integrator=` (an ordinary argument of the public API).

Explicit Euler with ONE step per requested interval, on Python floats.  With integer time points,
integer states and the polynomial functions of c09_fns every value is an exactly representable
integer, so sequential / parallel / independent runs and the Gallina model (coq/scan/ScanModel.v:
euler, integrate_tc, steady) can be compared with `==`.  It follows the conventions of
mxlpy.integrators.Scipy for the time axis (t0 is inserted when the first requested point is not t0;
`integrate(t_end, steps)` returns steps+1 points) and fails deterministically:
IntegrationFailure when a component leaves [-LIMIT, LIMIT], NoSteadyState after MAXS unit steps
without an exact fixed point.  The rate functions see Python floats, so a division by a state that
became zero raises ZeroDivisionError during the integration."""

from __future__ import annotations

import numpy as np

from mxlpy.integrators.abstract import TimeCourse
from mxlpy.types import IntegrationFailure, NoSteadyState, Result

LIMIT = 4096.0
MAXS = 12


class ExactEuler:
    def __init__(self, rhs, y0, jacobian=None):  # noqa: ANN001, ARG002
        self.rhs = rhs
        self.y0 = tuple(float(v) for v in y0)
        self._y0_orig = self.y0
        self.t0 = 0.0

    def reset(self) -> None:
        self.t0 = 0.0
        self.y0 = self._y0_orig

    def integrate(self, *, t_end, steps=None):  # noqa: ANN001
        steps = 100 if steps is None else steps + 1
        return self.integrate_time_course(time_points=np.linspace(self.t0, t_end, steps, dtype=float))

    def integrate_time_course(self, *, time_points):  # noqa: ANN001
        tps = [float(t) for t in time_points]
        if tps[0] != self.t0:
            tps.insert(0, self.t0)
        t, y = tps[0], self.y0
        ts, ys = [t], [y]
        for t1 in tps[1:]:
            dy = self.rhs(t, y)
            y = tuple(float(a + (t1 - t) * b) for a, b in zip(y, dy, strict=True))
            t = t1
            if not all(abs(v) <= LIMIT for v in y):
                return Result(IntegrationFailure())
            ts.append(t)
            ys.append(y)
        self.t0, self.y0 = t, y
        return Result(TimeCourse(time=np.array(ts, dtype=float), values=np.array(ys, dtype=float).reshape(len(ts), len(y))))

    def integrate_to_steady_state(self, *, tolerance, rel_norm):  # noqa: ANN001, ARG002
        self.reset()
        t, y = self.t0, self.y0
        for _ in range(MAXS):
            dy = self.rhs(t, y)
            y2 = tuple(float(a + b) for a, b in zip(y, dy, strict=True))
            t += 1.0
            if not all(abs(v) <= LIMIT for v in y2):
                return Result(IntegrationFailure())
            if y2 == y:
                return Result(TimeCourse(time=np.array([t], dtype=float), values=np.array([y2], dtype=float)))
            y = y2
        return Result(NoSteadyState())
