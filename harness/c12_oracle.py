"""C12 -- independent oracle.

The derivative of the NUMERIC right-hand side is obtained by pushing dual numbers
(a + b*eps, eps^2 = 0, exact fractions.Fraction components) through the real `Model.__call__`:
the eps-part of model(t, x + eps*e_j)[i] is d rhs_i / d x_j exactly (the rate functions are
ordinary Python arithmetic).  Nothing here is shared with the Coq model (no expression trees,
no formal derivative, no SymPy)."""

from __future__ import annotations

from fractions import Fraction
from typing import Any


def _fr(x: Any) -> Fraction:
    if isinstance(x, Fraction):
        return x
    if isinstance(x, int):
        return Fraction(x)
    return Fraction(*float(x).as_integer_ratio())


KINKS = [0]  # number of order comparisons between equal values seen so far (see Dual._cmp)


class Dual:
    __slots__ = ("re", "ep")
    __array_ufunc__ = None  # make numpy scalars defer to our reflected operators

    def __init__(self, re: Any, ep: Any = 0) -> None:
        self.re = _fr(re)
        self.ep = _fr(ep)

    @staticmethod
    def lift(x: Any) -> "Dual":
        return x if isinstance(x, Dual) else Dual(x)

    def __add__(self, o):
        o = Dual.lift(o)
        return Dual(self.re + o.re, self.ep + o.ep)

    __radd__ = __add__

    def __neg__(self):
        return Dual(-self.re, -self.ep)

    def __pos__(self):
        return self

    def __sub__(self, o):
        o = Dual.lift(o)
        return Dual(self.re - o.re, self.ep - o.ep)

    def __rsub__(self, o):
        return Dual.lift(o) - self

    def __mul__(self, o):
        o = Dual.lift(o)
        return Dual(self.re * o.re, self.re * o.ep + self.ep * o.re)

    __rmul__ = __mul__

    def __truediv__(self, o):
        o = Dual.lift(o)
        return Dual(self.re / o.re, (self.ep * o.re - self.re * o.ep) / (o.re * o.re))

    def __rtruediv__(self, o):
        return Dual.lift(o) / self

    def __pow__(self, k):
        if not isinstance(k, int) or k < 0:
            raise TypeError("Dual ** non-natural")
        r = Dual(1)
        for _ in range(k):
            r = r * self
        return r

    def __float__(self):
        return float(self.re)

    # order comparisons (rate laws that branch on a sign: `if v < 0`, `-v if v < 0 else v`) look at the
    # value only.  A comparison of EQUAL values is a kink of the right-hand side: the derivative the
    # dual part then reports is the one-sided one of the branch Python takes; the hit is counted so that
    # the caller can refrain from judging a Jacobian at a point where no derivative exists.
    def _cmp(self, o):
        o = Dual.lift(o)
        if self.re == o.re:
            KINKS[0] += 1
        return self.re, o.re

    def __lt__(self, o):
        a, b = self._cmp(o)
        return a < b

    def __le__(self, o):
        a, b = self._cmp(o)
        return a <= b

    def __gt__(self, o):
        a, b = self._cmp(o)
        return a > b

    def __ge__(self, o):
        a, b = self._cmp(o)
        return a >= b


def exact_jacobian(m, t: Any, x: list[Any]) -> list[list[Fraction]]:
    """J[i][j] = d model(t, x)[i] / d x[j], exactly."""
    n = len(x)
    cols = []
    for j in range(n):
        xs = [Dual(x[k], 1 if k == j else 0) for k in range(n)]
        out = m(t, xs)
        cols.append([Dual.lift(o).ep for o in out])
    return [[cols[j][i] for j in range(n)] for i in range(n)]


def exact_rhs(m, t: Any, x: list[Any]) -> list[Fraction]:
    out = m(t, [Dual(v) for v in x])
    return [Dual.lift(o).re for o in out]


def close(a: Any, b: Any, rel: float = 1e-9) -> bool:
    a = float(a)
    b = float(b)
    if a != a or b != b:
        return False
    return abs(a - b) <= rel * (1.0 + max(abs(a), abs(b)))


def mat_close(a, b, rel: float = 1e-9) -> bool:
    a = [list(r) for r in a]
    b = [list(r) for r in b]
    if len(a) != len(b):
        return False
    return all(len(r) == len(s) and all(close(u, v, rel) for u, v in zip(r, s)) for r, s in zip(a, b))


# ---------------------------------------------------------------------------------------
# magnitude of an expression: the sum of the absolute values of everything that is added up
# ---------------------------------------------------------------------------------------


def absval(expr, env: dict) -> float:
    """|c1|*|m1| + |c2|*|m2| + ... for an expression built from numbers, symbols (bound by env: Symbol -> float),
    sums, products and integer powers, WITHOUT expanding it: an upper bound of every partial sum a floating-point
    evaluation of `expr` at env can meet.  Evaluating `expr` in binary64 (and printing its 53-bit number atoms with 15
    significant digits, as lambdify does) differs from its exact value by at most a few hundred ulps of this magnitude;
    the caller uses 1e-11 * absval as tolerance.  Used for models whose coefficients span many orders of magnitude
    (unit-conversion factors such as 3e-7 next to 1): an absolute tolerance would hide a tiny term, a tolerance
    relative to the RESULT would be unsound under cancellation.  Raises ValueError on anything else (Piecewise, ...)."""
    import sympy

    expr = sympy.sympify(expr)
    if expr.is_Symbol:
        return abs(float(env[expr]))
    if expr.is_Number:
        return abs(float(expr))
    if expr.is_Add:
        return float(sum(absval(a, env) for a in expr.args))
    if expr.is_Mul:
        r = 1.0
        for a in expr.args:
            r *= absval(a, env)
        return r
    if expr.is_Pow and expr.exp.is_Integer:
        n = int(expr.exp)
        if n >= 0:
            return absval(expr.base, env) ** n
        val = abs(float(expr.base.evalf(30, subs={k: sympy.Float(v, 30) for k, v in env.items()})))
        if val == 0.0:
            raise ValueError("division by zero")
        cond = max(1.0, absval(expr.base, env) / val)
        return (cond / val) ** (-n)
    raise ValueError(f"absval: unsupported node {type(expr).__name__}")


def within(a: Any, b: Any, mag: float, rel: float = 1e-11) -> bool:
    """|a - b| <= rel * mag  (mag: absval of the expression a was computed from)"""
    fa = float(a)
    if fa != fa or fa in (float("inf"), float("-inf")) or mag != mag:
        return False
    return abs(_fr(a) - _fr(b)) <= _fr(rel * mag)
