"""C02, closing round (seeded C02-7, C02-8): MIXTURES of bad-graph kinds and HISTORIES of one model / one process.

Own rng stream `c02-close` (the streams of c02.py / c02_values.py are untouched).  Descriptions from harness/modelgen.py.

  (d) mixtures: one component names ITSELF (derived / reaction / initial assignment: its own name; a surrogate: one of
      its own outputs) and a component -- another one, or the very same one -- names something that does not exist.
      The property: a component naming something that does not exist is rejected with the missing-dependency error
      listing EXACTLY those names, whatever else is wrong with the graph.  Fresh models in three declaration orders,
      all three queries, payload compared with create_cache of the Coq model.
  (e) scripts on ONE live model (and, for twins, further models in the same process): what a query answers is a
      function of the model's CONTENT at that moment, not of what was built or asked before.  Steps:
        query                      judge all entry points against the current description (error kind + exact missing list,
                                   or the values of the independent evaluator)
        rewire kind name args      update_* (args only)
        remove kind name           remove_parameter / remove_variable / remove_data of a base quantity
        addback kind name          declare it again with its original value
        twin                       build a FRESH model with the current content (same declaration order) and judge it
        twin_without [[kind,name]] build a fresh model with the current content minus these base quantities; the live
                                   model is left alone
      Episodes: remove a base quantity that components name -> MissingDependenciesError {component: [name]} from every
      query and from a fresh twin -> put it back -> numbers again; a complete model is queried and an incomplete twin
      with the same components is built afterwards; self-reference + missing name through the update API.

Expected outcomes: modelgen.graph_outcome (completeness + Kahn on the description), values: modelgen.Oracle.  Nothing
here shares code with the sorter or the Coq model."""

from __future__ import annotations

from harness import c01, common, modelgen
from harness.c02_values import FOREIGN_MISSING, _ok_case, coq_expect, corr_file_v, judge_outcome, query_outcomes
from harness.common import Run, cn
from harness.modelgen import Oracle, nm

# ---------------------------------------------------------------------------------------
# mixtures
# ---------------------------------------------------------------------------------------


def pick_mixture(rng, desc: dict) -> list[tuple[str, int, list[int]]] | None:
    """-> re-wirings [(kind, name, new_args)]: the first makes a component name itself, the same or a second one
    names a non-existent quantity (a fresh name; sometimes a surrogate's container name, which is not a value)."""
    cands = modelgen.rewirable(desc)
    if not cands:
        return None
    plain = [c for c in cands if c[0] != "sur"]
    pool = cands if (not plain or rng.random() < 0.2) else plain
    kind, name, args = rng.choice(pool)
    new = list(args)
    pos = rng.randrange(len(new))
    own = [s for s in desc["sur"] if s[0] == name]
    new[pos] = rng.choice(own[0][3]) if (kind == "sur" and own) else name
    ghost = FOREIGN_MISSING + rng.randint(0, 2)
    if desc["sur"] and rng.random() < 0.2:
        ghost = rng.choice(desc["sur"])[0]
    others = [c for c in cands if c[1] != name]
    if len(new) >= 2 and (not others or rng.random() < 0.4):
        new[rng.choice([p for p in range(len(new)) if p != pos])] = ghost
        return [(kind, name, new)]
    if not others:
        return None
    k2, n2, a2 = rng.choice(others)
    new2 = list(a2)
    new2[rng.randrange(len(new2))] = ghost
    out = [(kind, name, new), (k2, n2, new2)]
    if rng.random() < 0.5:
        out.reverse()
    return out


def corpus() -> list[tuple[str, dict, list]]:
    """(label, description, script) -- the shapes of the two seeded demos, written down once."""
    f1, f2 = 0, 2  # f_id, f_add
    out = []
    base = {"par": [(11, ("plain", 1))], "var": [(12, ("plain", 1))], "der": [], "rxn": [], "sur": [], "ro": [], "dat": []}
    d = modelgen.copy_desc(base)
    d["der"] = [(13, f1, [13]), (14, f1, [11]), (15, f2, [11, 9100])]
    out.append(("self-loop + another component naming a ghost", d, None))
    d = modelgen.copy_desc(base)
    d["der"] = [(13, f2, [13, 9101])]
    out.append(("one component naming itself and a ghost", d, None))
    d = modelgen.copy_desc(base)
    d["sur"] = [(13, 1, [12, 14], [14, 15], [])]
    d["rxn"] = [(20, f2, [12, 9100], [(12, ("stat", -1))])]
    out.append(("surrogate reading its own output + reaction naming a ghost", d, None))
    # histories (seeded C02-8 demo): d2 <- d1 <- k, x ; v <- d2, y
    h = {"par": [(11, ("plain", 2))], "var": [(12, ("plain", 1)), (13, ("plain", 3))], "der": [(15, 6, [14]), (14, 4, [11, 12])],
         "rxn": [(16, 4, [15, 13], [(12, ("stat", -1))])], "sur": [], "ro": [], "dat": []}
    out.append(("remove a parameter after a query", h,
                [["query"], ["remove", "par", 11], ["query"], ["twin"], ["addback", "par", 11], ["query"]]))
    out.append(("remove a variable after a query", h, [["query"], ["remove", "var", 13], ["query"], ["addback", "var", 13], ["query"]]))
    out.append(("incomplete twin after a complete model", h, [["query"], ["twin_without", [["par", 11], ["var", 13]]], ["query"]]))
    hd = modelgen.copy_desc(h)
    hd["dat"] = [(17, 4)]
    hd["der"] = [(19, 4, [18, 11]), (18, 0, [17])] + h["der"]
    out.append(("remove a data set after a query", hd, [["query"], ["remove", "dat", 17], ["query"], ["addback", "dat", 17], ["query"]]))
    out.append(("self-reference + ghost through the update API", h,
                [["query"], ["rewire", "der", 14, [14, 9100]], ["query"], ["rewire", "der", 14, [11, 12]], ["query"]]))
    return out


# ---------------------------------------------------------------------------------------
# scripts
# ---------------------------------------------------------------------------------------


def _points_for(points, d_cur: dict):
    have = [n for n, _ in d_cur["var"]]
    return [(t, None if s is None else {k: s[k] for k in have}) for t, s in points]


def _judge_model(m, d_cur: dict, points, rng, who: str, coq: list | None, alt: str | None = None) -> str | None:
    """all queries of model m against the content d_cur (per-kind lists in declaration order); `alt`: a second Gallina
    expression for the same content (remove_base ... applied to the content before the removal)"""
    expected = modelgen.graph_outcome(d_cur)
    outs = query_outcomes(m)
    bad = judge_outcome(expected, outs)
    if bad:
        return f"{who}: {bad}"
    if expected[0] == "ok":
        pts = _points_for(points, d_cur)
        orc = Oracle(d_cur)
        if c01.bounded(orc, pts):
            bad = _ok_case(None, m, d_cur, orc, pts, rng, [], [])
            if bad:
                return f"{who}: values are not those of the model's content: {bad}"
        if coq is not None:
            ic = [(modelgen.un(k), common.exact_int(v)) for k, v in m.get_initial_conditions().items()]
            coq.append((f"({modelgen.coq_model(d_cur)}, {coq_expect(('ok',), d_cur, ic)})", (d_cur, "ok")))
            if alt:
                coq.append((f"({alt}, {coq_expect(('ok',), d_cur, ic)})", (d_cur, "ok, content written as remove_base of the earlier content")))
    elif coq is not None:
        o = outs[0][1]
        payload = [(k, o[1][k]) for k in o[2]] if o[0] == "missing" else None
        coq.append((f"({modelgen.coq_model(d_cur)}, {coq_expect(expected, d_cur, payload)})", (d_cur, expected[0])))
        if alt:
            coq.append((f"({alt}, {coq_expect(expected, d_cur, payload)})", (d_cur, expected[0] + ", content written as remove_base of the earlier content")))
    return None


def run_script(desc: dict, seq: list, points, steps: list, rng, coq: list | None = None) -> str | None:
    """-> None or what went wrong (with the step at which it did)."""
    d_cur = modelgen.reorder(desc, seq)
    seq_cur = [tuple(x) for x in seq]
    try:
        m = modelgen.build_ordered(desc, seq)
    except Exception as e:  # noqa: BLE001
        return f"building the model raised {type(e).__name__}: {e}"
    done: list[str] = []
    alt: str | None = None  # the current content as Coq's remove_base applied to an earlier content (ties CacheHist.remove_base to remove_*)
    for st in steps:
        op = st[0]
        tag = " -> ".join(done + [_show(st)])
        try:
            if op == "query":
                bad = _judge_model(m, d_cur, points, rng, f"[{tag}] the live model", coq, alt)
                if bad:
                    fresh = _judge_model(modelgen.build_ordered(d_cur, seq_cur), d_cur, points, rng, "fresh", None)
                    return f"{bad} (a model built afresh with this content, later in the same process: {fresh or 'as expected'})"
            elif op == "rewire":
                _, kind, name, args = st
                modelgen.apply_rewire(m, d_cur, kind, name, list(args))
                alt = None
                d_cur = modelgen.rewire(d_cur, kind, name, list(args))
            elif op == "remove":
                _, kind, name = st
                modelgen.apply_remove(m, kind, name)
                alt = f"(remove_base {_BK[kind]} {cn(name)} {alt or modelgen.coq_model(d_cur)})"
                d_cur = modelgen.remove_base(d_cur, kind, name)
                seq_cur = [x for x in seq_cur if x != (kind, name)]
            elif op == "addback":
                _, kind, name = st
                modelgen.apply_add_back(m, desc, kind, name)
                alt = None
                d_cur = modelgen.add_base_back(d_cur, desc, kind, name)
                seq_cur = seq_cur + [(kind, name)]
            elif op == "twin":
                bad = _judge_model(modelgen.build_ordered(d_cur, seq_cur), d_cur, points, rng, f"[{tag}] a second model with the same content", coq)
                if bad:
                    return bad
            elif op == "twin_without":
                d_t, seq_t = d_cur, list(seq_cur)
                for kind, name in st[1]:
                    d_t = modelgen.remove_base(d_t, kind, name)
                    seq_t = [x for x in seq_t if x != (kind, name)]
                bad = _judge_model(modelgen.build_ordered(d_t, seq_t), d_t, points, rng,
                                   f"[{tag}] a second model with the same components but without {[nm(n) for _, n in st[1]]}", coq)
                if bad:
                    return bad
            else:
                raise ValueError(op)
        except Exception as e:  # noqa: BLE001
            return f"[{tag}] raised {type(e).__name__}: {e}"
        done.append(_show(st))
    return None


_BK = {"par": "BPar", "var": "BVar", "dat": "BDat"}


def corr_file(cases: list[str]) -> str:
    return corr_file_v(cases).replace("CorrC01 CorrC02v.", "CorrC01 CorrC02v CacheHist.")


def _show(st: list) -> str:
    if st[0] in ("query", "twin"):
        return st[0]
    if st[0] == "rewire":
        return f"{st[1]} {nm(st[2])}.args<-{[nm(a) for a in st[3]]}"
    if st[0] == "twin_without":
        return f"twin without {[nm(n) for _, n in st[1]]}"
    return f"{st[0]} {st[1]} {nm(st[2])}"


def gen_script(rng, desc: dict, dist: dict) -> list:
    steps: list = [["query"]]
    d_cur = desc
    for _ in range(rng.randint(1, 3)):
        ep = rng.choice(["remove", "remove", "twin_without", "mixture"])
        if ep in ("remove", "twin_without"):
            cands = modelgen.removable_bases(d_cur)
            named = [c for c in cands if c[2]]
            pool = named if (named and rng.random() < 0.8) else cands
            if not pool:
                continue
            if ep == "remove":
                kind, name, _ = rng.choice(pool)
                steps += [["remove", kind, name], ["query"]]
                if rng.random() < 0.35:
                    steps.append(["twin"])
                steps += [["addback", kind, name], ["query"]]
                d_cur = modelgen.add_base_back(modelgen.remove_base(d_cur, kind, name), desc, kind, name)
            else:
                picks = rng.sample(pool, min(len(pool), rng.randint(1, 2)))
                if sum(1 for k, _, _ in picks if k == "var") >= len(d_cur["var"]):
                    picks = picks[:1]
                steps += [["twin_without", [[k, n] for k, n, _ in picks]]]
                if rng.random() < 0.5:
                    steps.append(["query"])
            dist["episodes"][ep] = dist["episodes"].get(ep, 0) + 1
        else:
            mix = pick_mixture(rng, d_cur)
            if mix is None:
                continue
            orig = {x[1]: (x[0], x[2]) for x in modelgen.rewirable(d_cur)}
            for kind, name, args in mix:
                steps.append(["rewire", kind, name, list(args)])
                if rng.random() < 0.3:
                    steps.append(["query"])
            if steps[-1] != ["query"]:
                steps.append(["query"])
            for kind, name, _ in reversed(mix):
                steps.append(["rewire", kind, name, list(orig[name][1])])
            steps.append(["query"])
            dist["episodes"]["mixture"] = dist["episodes"].get("mixture", 0) + 1
    return steps


# ---------------------------------------------------------------------------------------
# the stage
# ---------------------------------------------------------------------------------------


def run_stage(run: Run, rng, thorough: bool) -> None:
    n_models = 150 if thorough else 40
    dist: dict = {"models": 0, "mixture_graphs": 0, "mixture_same_component": 0, "mixture_orders": 0, "scripts": 0, "script_steps": 0,
                  "episodes": {}, "corpus": 0}
    coq: list = []
    n_viol = 0

    def viol(what, rep):
        nonlocal n_viol
        if n_viol < 6:
            n_viol += 1
            run.violation(what, rep)

    def fresh_orders(d_v):
        seqs = [modelgen.decl_items(d_v)]
        seqs.append(list(reversed(seqs[0])))
        s2 = list(seqs[0])
        rng.shuffle(s2)
        seqs.append(s2)
        return seqs

    def mixture_fresh(d_v, label):
        expected = modelgen.graph_outcome(d_v)
        for seq in fresh_orders(d_v):
            dist["mixture_orders"] += 1
            run.count_case(("mixture", repr(d_v), repr(seq)), nontrivial=True)
            d_o = modelgen.reorder(d_v, seq)
            try:
                bad = _judge_model(modelgen.build_ordered(d_v, seq), d_o, [(0, None)], rng, "fresh model", coq)
            except Exception as e:  # noqa: BLE001
                bad = f"raised {type(e).__name__}: {e}"
            if bad:
                viol(f"mixture graph ({label}; expected {expected[0]}), declared in order {[nm(n) for _, n in seq]}: {bad}",
                     {"kind": "badgraph", "desc": d_v, "seq": seq})
                return

    pts0 = [(0, None)]
    for label, d, script in corpus():
        dist["corpus"] += 1
        if script is None:
            mixture_fresh(d, label)
        else:
            seq = modelgen.decl_items(d)
            run.count_case(("script", repr(d), repr(script)), nontrivial=True)
            bad = run_script(d, seq, pts0, script, rng, coq)
            if bad:
                viol(f"history on one model ({label}): {bad}", {"kind": "script", "desc": d, "seq": seq, "points": pts0, "steps": script})

    for _ in range(n_models):
        desc = modelgen.gen_model(rng, ia_bias=0.6, max_comp=8)
        orc = Oracle(desc)
        t1, s1 = modelgen.gen_state(rng, desc)
        points = [(0, None), (t1, s1)]
        if not c01.bounded(orc, points):
            continue
        dist["models"] += 1
        # (d) mixtures on fresh models
        for _ in range(2):
            mix = pick_mixture(rng, desc)
            if mix is None:
                continue
            d_v = desc
            for rw in mix:
                d_v = modelgen.rewire(d_v, *rw)
            if modelgen.graph_outcome(d_v)[0] != "missing":
                continue
            dist["mixture_graphs"] += 1
            dist["mixture_same_component"] += len(mix) == 1
            mixture_fresh(d_v, " + ".join(f"{k} {nm(n)}.args={[nm(a) for a in args]}" for k, n, args in mix))
        # (e) a history on the live model
        seq = modelgen.decl_items(desc)
        if rng.random() < 0.5:
            rng.shuffle(seq)
        steps = gen_script(rng, desc, dist)
        if len(steps) < 2:
            continue
        dist["scripts"] += 1
        dist["script_steps"] += len(steps)
        run.count_case(("script", repr(desc), repr(seq), repr(steps)), nontrivial=True)
        bad = run_script(desc, seq, points, steps, rng, coq)
        if bad:
            viol(f"history on one model: {bad}", {"kind": "script", "desc": desc, "seq": seq, "points": points, "steps": steps})
    run.coverage["closing_stage_mixtures_histories"] = dist

    files = {f"c02v3_{k:04d}": corr_file([c for c, _ in chunk]) for k, chunk in enumerate(common.chunks(coq, 200))}
    res = common.coq_eval_many("core", files, timeout_s=900)
    mism = 0
    for name in sorted(files):
        ok, out = res[name]
        lists = common.parse_eval_list(out) if ok else None
        if not ok or not lists:
            run.broken_correspondence.append(f"closing-stage correspondence shard {name} did not evaluate: {out[-400:]}")
            continue
        k = int(name.split("_")[1])
        for j in lists[-1]:
            mism += 1
            if len(run.broken_correspondence) < 4:
                run.broken_correspondence.append(f"model/implementation disagree (mixtures/histories, {name}): {coq[k * 200 + j][1]}")
    run.coverage["closing_stage_traces_validated"] = len(coq) - mism
    run.coverage["closing_stage_mismatches"] = mism


def replay(r: dict) -> int:
    import random

    desc = {k: [c01._tup(x) for x in v] for k, v in r["desc"].items()}
    seq = [tuple(x) for x in r["seq"]]
    points = [(t, None if s is None else {int(k): v for k, v in s.items()}) for t, s in r["points"]]
    steps = [list(st) for st in r["steps"]]
    bad = run_script(desc, seq, points, steps, random.Random(0))
    print(bad or "property holds on this input")
    return 1 if bad else 0
