"""C18 -- control coefficients equal analytic sensitivities; model left untouched.

Tie to the source:
  (1) facts regenerated from src/mxlpy/mca.py into coq/mca/GenMcaFacts.v: the `displacement`
      defaults, and for variable_elasticities / parameter_elasticities / _response_coefficient_worker
      the ordered list of MODEL-TOUCHING statements (read old, save/apply/restore y0, set parameter
      up/down/back, observations, lazy result views), recognised statement by statement by a
      fail-closed matcher on the normalised `ast.unparse` text; PropsC18.v pins them;
  (2) correspondence: the Gallina routines (`var_elast`, `par_elast`, `resp_seq` over `pl_fluxes`)
      are evaluated inside Coq (vm_compute, exact Q) on the same power-law networks the real
      routines ran on -- elasticity tables cell by cell (dyadic displacement so that binary64 is
      exact; NaN/inf = None), the model content after the call, and for response_coefficients the
      model content at every steady-state call (recorded by wrapping mca._steady_state_worker);
  (3) an independent oracle judges the PROPERTY on the implementation: elasticities against the
      analytic partial derivatives / kinetic orders (Fractions; tolerance = proved truncation bound
      2^n d^2 + 1e-6 rounding allowance), response coefficients of power-law chains against the
      closed-form steady-state sensitivities (5e-2), parameters + initial values before/after
      (exact), sequential == parallel;
  (4) 4th pass (harness/c18_indirect.py): parameters that act through derived parameters, initial-assignment
      parameters, assigned initial values and parameter-dependent stoichiometric coefficients.
"""

from __future__ import annotations

import ast
import copy
import math
import signal
from fractions import Fraction
from typing import Any

from harness import common
from harness.common import Run, clist, cn, copt, cq, cbool

AREA = "mca"
PROPS = "PropsC18.v"

VAR_BASE, PAR_BASE = 100, 200


def code_of(name: str) -> int:
    if name.startswith("x") and name[1:].isdigit():
        return VAR_BASE + int(name[1:])
    if name.startswith("k") and name[1:].isdigit():
        return PAR_BASE + int(name[1:])
    if name.startswith("a") and name[1:].isdigit():
        return 300 + int(name[1:])  # initial-assignment parameters (harness/c18_indirect.py)
    if name.startswith("q") and name[1:].isdigit():
        return 400 + int(name[1:])  # derived parameters
    return 900 + (sum(map(ord, name)) % 50)  # deliberately unknown names


# ---------------------------------------------------------------------------------------
# (1) fact extraction (fail-closed)
# ---------------------------------------------------------------------------------------

_SS_CALL = "_steady_state_worker(model, rel_norm=rel_norm, integrator=integrator, y0=None)"

# exact (normalised) statement text -> statements of the model-touching skeleton
_WORKER_TOP = {
    "old = model.get_parameter_values()[parameter]": ["SReadOld"],
    "model.update_parameters({parameter: old * (1 + displacement)})": ["(SSetPar Up)"],
    "model.update_parameters({parameter: old * (1 - displacement)})": ["(SSetPar Down)"],
    "model.update_parameters({parameter: old})": ["(SSetPar Back)"],
    f"upper = {_SS_CALL}": ["SObserve"],
    f"lower = {_SS_CALL}": ["SObserve"],
    "conc_resp = (upper.variables.iloc[-1] - lower.variables.iloc[-1]) / (2 * displacement * old)": ["(SView 0)", "(SView 1)"],
    "flux_resp = (upper.fluxes.iloc[-1] - lower.fluxes.iloc[-1]) / (2 * displacement * old)": ["(SView 0)", "(SView 1)"],
    "return (conc_resp, flux_resp)": [],
}
_WORKER_Y0 = {
    "raw_variables = model.get_raw_variables(as_copy=False)": [],
    "old_y0 = {k: raw_variables[k].initial_value for k in y0}": ["SSaveY0"],
    "model.update_variables(y0)": ["SApplyY0"],
    "model.update_variables(old_y0)": ["SRestoreY0"],
}
_WORKER_NORM = {
    f"norm = {_SS_CALL}": ["SObserveIfNorm"],
    "conc_resp *= old / norm.variables.iloc[-1]": ["(SViewIfNorm 2)"],
    "flux_resp *= old / norm.fluxes.iloc[-1]": ["(SViewIfNorm 2)"],
}
_VAR_TOP = {
    "variables = model.get_initial_conditions() if variables is None else variables": [],
    "to_scan = model.get_variable_names() if to_scan is None else to_scan": [],
    "elasticities = {}": [],
    "return pd.DataFrame(data=elasticities)": [],
}
_VAR_LOOP = {
    "old = variables[var]": [],
    "upper = model.get_fluxes(variables=variables | {var: old * (1 + displacement)}, time=time)": ["SObserve"],
    "lower = model.get_fluxes(variables=variables | {var: old * (1 - displacement)}, time=time)": ["SObserve"],
    "elasticity_coef = (upper - lower) / (2 * displacement * old)": [],
    "elasticities[var] = elasticity_coef": [],
}
_ELAST_NORM = {
    "elasticity_coef *= old / model.get_fluxes(variables=variables, time=time)": ["SObserveIfNorm"],
}
_PAR_TOP = {
    "variables = model.get_initial_conditions() if variables is None else variables": [],
    "to_scan = model.get_parameter_names() if to_scan is None else to_scan": [],
    "elasticities = {}": [],
    "return pd.DataFrame(data=elasticities)": [],
}
_PAR_LOOP = {
    "old = model.get_parameter_values()[par]": ["SReadOld"],
    "model.update_parameters({par: old * (1 + displacement)})": ["(SSetPar Up)"],
    "upper = model.get_fluxes(variables=variables, time=time)": ["SObserve"],
    "model.update_parameters({par: old * (1 - displacement)})": ["(SSetPar Down)"],
    "lower = model.get_fluxes(variables=variables, time=time)": ["SObserve"],
    "model.update_parameters({par: old})": ["(SSetPar Back)"],
    "elasticity_coef = (upper - lower) / (2 * displacement * old)": [],
    "elasticities[par] = elasticity_coef": [],
}


# the repaired displacement rule (fixes/C18-zero-state.diff): the same statements routed through the helper
_DISPLACE_ARGS = "value: float, displacement: float"
_DISPLACE_BODY = ("if value == 0:\n    return (displacement, -displacement, 2 * displacement)\n"
                  "return (value * (1 + displacement), value * (1 - displacement), 2 * displacement * value)")
_DISPLACE_CALL = "upper_value, lower_value, distance = _displace(old, displacement)"


def _abs0(table: dict[str, list[str]], with_call: bool) -> dict[str, list[str]]:
    out = {}
    for text, sk in table.items():
        t = (text.replace("old * (1 + displacement)", "upper_value").replace("old * (1 - displacement)", "lower_value")
             .replace("/ (2 * displacement * old)", "/ distance"))
        out[t] = sk
    if with_call:
        out[_DISPLACE_CALL] = []
    return out


def expected_quot() -> str:
    """The displacement rule coq/mca/ExpectedFacts.v expects (hand-edited switch, tools/c18_switch.py)."""
    import re

    try:
        m = re.search(r"Definition C18_expected_quot : quot_kind := (\w+)\.", (common.area_dir(AREA) / "ExpectedFacts.v").read_text())
    except OSError:
        m = None
    return m.group(1) if m else "QuotUnknown"


def _is_doc(s: ast.stmt) -> bool:
    return isinstance(s, ast.Expr) and isinstance(s.value, ast.Constant) and isinstance(s.value.value, str)


def _walk(body: list[ast.stmt], table: dict[str, list[str]], blocks: dict[str, dict], quot: list[bool], top: bool) -> list[str]:
    """Translate a statement list; unknown statements give SUnknown (and break the quotient fact)."""
    out: list[str] = []
    for s in body:
        if _is_doc(s):
            continue
        text = ast.unparse(s)
        if isinstance(s, ast.If) and not s.orelse and ast.unparse(s.test) in blocks:
            out += _walk(s.body, blocks[ast.unparse(s.test)], {}, quot, False)
        elif isinstance(s, ast.For) and not s.orelse and ("for " + ast.unparse(s.target) + " in " + ast.unparse(s.iter)) in blocks:
            out += _walk(s.body, blocks["for " + ast.unparse(s.target) + " in " + ast.unparse(s.iter)], blocks, quot, False)
        elif text in table:
            out += table[text]
        else:
            out.append("SUnknown")
            quot[0] = False
    return out


def _displacement_default(fn: ast.FunctionDef) -> Fraction | None:
    args = fn.args
    names = [a.arg for a in args.kwonlyargs]
    if "displacement" in names:
        d = args.kw_defaults[names.index("displacement")]
    else:
        pos = [a.arg for a in args.args]
        if "displacement" not in pos:
            return None
        i = pos.index("displacement") - (len(pos) - len(args.defaults))
        d = args.defaults[i] if i >= 0 else None
    if isinstance(d, ast.Constant) and isinstance(d.value, (int, float)) and not isinstance(d.value, bool):
        try:
            return Fraction(ast.unparse(d))  # the decimal literal as written: 1e-4 -> 1/10000
        except (ValueError, ZeroDivisionError):
            return Fraction(d.value)
    return None


def extract_facts() -> dict[str, Any]:
    facts: dict[str, Any] = {"disp": [], "var_prog": ["SUnknown"], "par_prog": ["SUnknown"], "worker_prog": ["SUnknown"], "quot": "QuotUnknown"}
    try:
        tree = ast.parse((common.REPO / "src/mxlpy/mca.py").read_text())
    except (OSError, SyntaxError):
        return facts
    fns = {n.name: n for n in tree.body if isinstance(n, ast.FunctionDef)}
    need = ["_response_coefficient_worker", "variable_elasticities", "parameter_elasticities", "response_coefficients"]
    if any(n not in fns for n in need):
        return facts
    disp = [_displacement_default(fns[n]) for n in need]
    facts["disp"] = [d for d in disp if d is not None] if all(d is not None for d in disp) else []
    quot = [True]
    helper = fns.get("_displace")
    worker_top, var_loop, par_loop = _WORKER_TOP, _VAR_LOOP, _PAR_LOOP
    if helper is not None:
        # all three routines must go through the helper, and the helper must be the known one
        body = "\n".join(ast.unparse(s) for s in helper.body if not _is_doc(s))
        if ast.unparse(helper.args) != _DISPLACE_ARGS or body != _DISPLACE_BODY or helper.decorator_list:
            quot[0] = False
            facts["displace_helper"] = "changed"
        worker_top, var_loop, par_loop = _abs0(_WORKER_TOP, True), _abs0(_VAR_LOOP, True), _abs0(_PAR_LOOP, True)
    facts["worker_prog"] = _walk(
        fns["_response_coefficient_worker"].body, worker_top, {"y0 is not None": _WORKER_Y0, "normalized": _WORKER_NORM}, quot, True
    )
    facts["var_prog"] = _walk(fns["variable_elasticities"].body, _VAR_TOP, {"for var in to_scan": var_loop, "normalized": _ELAST_NORM}, quot, True)
    facts["par_prog"] = _walk(fns["parameter_elasticities"].body, _PAR_TOP, {"for par in to_scan": par_loop, "normalized": _ELAST_NORM}, quot, True)
    # response_coefficients must hand the worker to parallelise with the caller's arguments
    rc = "\n".join(ast.unparse(s) for s in fns["response_coefficients"].body if not _is_doc(s))
    if rc != _RESPONSE_SHAPE:
        quot[0] = False
        facts["response_coefficients_shape"] = "changed"
    facts["quot"] = ("QuotCentralRelAbs0" if helper is not None else "QuotCentralRel") if quot[0] else "QuotUnknown"
    return facts


_RESPONSE_SHAPE = """to_scan = model.get_parameter_names() if to_scan is None else to_scan
res = parallelise(partial(_response_coefficient_worker, model=model, y0=variables, normalized=normalized, displacement=displacement, rel_norm=rel_norm, integrator=integrator), inputs=list(zip(to_scan, to_scan, strict=True)), cache=None, disable_tqdm=disable_tqdm, parallel=parallel, max_workers=max_workers)
return ResponseCoefficients(variables=pd.DataFrame({k: v[0] for k, v in res}), fluxes=pd.DataFrame({k: v[1] for k, v in res}))"""


def gen() -> dict[str, Any]:
    f = extract_facts()
    text = (
        "(* REGENERATED from src/mxlpy/mca.py by harness/c18.py; do not edit.  An unrecognised statement\n"
        "   yields SUnknown / QuotUnknown, which breaks C18_facts_pinned. *)\n"
        "From Coq Require Import QArith List.\nFrom Mca Require Import Mca.\nImport ListNotations.\n"
        "Definition gen_mca_facts : mca_facts := mkFacts\n"
        f"  {clist(cq(d) for d in f['disp'])}\n"
        f"  {clist(f['var_prog'])}\n"
        f"  {clist(f['par_prog'])}\n"
        f"  {clist(f['worker_prog'])}\n"
        f"  {f['quot']}.\n"
    )
    common.write_if_changed(common.area_dir(AREA) / "GenMcaFacts.v", text)
    return {k: ([str(x) for x in v] if isinstance(v, list) else v) for k, v in f.items()}


# ---------------------------------------------------------------------------------------
# networks
# ---------------------------------------------------------------------------------------
# net = {"vars": {name: value}, "pars": {name: value}, "rxns": [[(arg, order), ...], ...]}

_INT_VALUES = [-3.0, -2.0, -1.0, 1.0, 2.0, 3.0, 4.0, 0.5, 1.5]
_POW2_VALUES = [0.5, 1.0, 2.0, 4.0, -1.0, -2.0]


def gen_net(rng, mode: str) -> dict:
    nv, npar, nr = rng.randint(1, 3), rng.randint(1, 3), rng.randint(1, 4)
    vs = [f"x{i}" for i in range(nv)]
    ps = [f"k{i}" for i in range(npar)]
    rxns = []
    for _ in range(nr):
        names = [rng.choice(ps)] + [rng.choice(vs + vs + ps) for _ in range(rng.randint(0, 2))]
        fs, total = [], 0
        for a in names:
            n = min(rng.choice([0, 1, 1, 1, 2, 2, 3]), 4 - total)
            total += n
            fs.append((a, n))
        rxns.append(fs)

    def val():
        if mode == "float":
            return 0.0 if rng.random() < 0.03 else round(rng.uniform(0.2, 3.0), 3) * rng.choice([1, 1, 1, -1])
        if mode == "pow2":
            return 0.0 if rng.random() < 0.04 else rng.choice(_POW2_VALUES)
        return 0.0 if rng.random() < 0.06 else rng.choice(_INT_VALUES)

    return {"vars": {v: val() for v in vs}, "pars": {p: val() for p in ps}, "rxns": rxns}


def build_model(net: dict):
    from mxlpy import Model

    from harness.c18_fns import PowerLaw

    if "comp" in net:
        # 4th pass: computed parameters, assigned initial values, parameter-dependent stoichiometry
        from harness.c18_indirect import build_imodel

        return build_imodel(net)
    m = Model()
    m.add_variables(dict(net["vars"]))
    m.add_parameters(dict(net["pars"]))
    vs = list(net["vars"])
    for i, fs in enumerate(net["rxns"]):
        st = net.get("stoich", {}).get(i) or {vs[i % len(vs)]: 1.0}
        m.add_reaction(f"v{i}", fn=PowerLaw([n for _, n in fs]), args=[a for a, _ in fs], stoichiometry=st)
    return m


def snapshot(m) -> dict:
    """Parameter values, initial values and the raw containers (so an initial assignment replaced by a
    number, or a changed unit, is seen as well)."""
    return {
        "pars": [(k, float(v)) for k, v in m.get_parameter_values().items()],
        "inits": [(k, float(v)) for k, v in m.get_initial_conditions().items()],
        "raw": repr(sorted((k, repr(v.value)) for k, v in m.get_raw_parameters().items()))
        + repr(sorted((k, repr(v.initial_value)) for k, v in m.get_raw_variables().items())),
    }


class _Timeout(Exception):
    pass


def _alarm(signum, frame):  # noqa: ANN001, ARG001
    raise _Timeout


def _guard(seconds: float):
    signal.signal(signal.SIGALRM, _alarm)
    signal.setitimer(signal.ITIMER_REAL, seconds)


def _unguard():
    signal.setitimer(signal.ITIMER_REAL, 0)


def _cellval(x) -> float | None:
    x = float(x)
    return x if math.isfinite(x) else None


def table_of(df) -> list[tuple[str, list[float | None]]]:
    return [(str(c), [_cellval(v) for v in df[c].tolist()]) for c in df.columns]


# ---------------------------------------------------------------------------------------
# implementation drivers
# ---------------------------------------------------------------------------------------


def run_elast(case: dict) -> dict:
    """case: kind var|par, net, to_scan|None, variables|None, time, normalized, d|None (None = default)"""
    from mxlpy import mca

    m = build_model(case["net"])
    before = snapshot(m)
    fn = mca.variable_elasticities if case["kind"] == "var" else mca.parameter_elasticities
    kw: dict[str, Any] = {"to_scan": case["to_scan"], "variables": copy.deepcopy(case["variables"]), "time": case["time"], "normalized": case["normalized"]}
    if case["d"] is not None:
        kw["displacement"] = case["d"]
    _guard(20.0)
    try:
        df = fn(m, **kw)
        out: Any = ("Ok", table_of(df), [str(i) for i in df.index])
    except _Timeout:
        out = ("Timeout", None, None)
    except Exception as e:  # noqa: BLE001
        out = (common.classify_exception(e), None, None)
    finally:
        _unguard()
    return {"out": out, "before": before, "after": snapshot(m), "variables_arg_after": kw["variables"]}


def run_resp(case: dict, *, parallel: bool, record: bool) -> dict:
    """case: net, to_scan|None, y0|None, normalized, d|None"""
    from mxlpy import mca

    m = build_model(case["net"])
    before = snapshot(m)
    trace: list[dict] = []
    orig = mca._steady_state_worker  # noqa: SLF001

    def recorder(model, **kw):
        trace.append({"pars": [(k, float(v)) for k, v in model.get_parameter_values().items()],
                      "inits": [(k, float(v)) for k, v in model.get_initial_conditions().items()],
                      "y0_arg": kw.get("y0")})
        return orig(model, **kw)

    kw: dict[str, Any] = {"to_scan": case["to_scan"], "variables": copy.deepcopy(case["y0"]), "normalized": case["normalized"],
                          "parallel": parallel, "disable_tqdm": True, "max_workers": 2}
    if case["d"] is not None:
        kw["displacement"] = case["d"]
    if record and not parallel:
        mca._steady_state_worker = recorder  # noqa: SLF001
    _guard(120.0)
    try:
        rc = mca.response_coefficients(m, **kw)
        out: Any = ("Ok", table_of(rc.variables), table_of(rc.fluxes), [str(i) for i in rc.variables.index], [str(i) for i in rc.fluxes.index])
    except _Timeout:
        out = ("Timeout",)
    except Exception as e:  # noqa: BLE001
        out = (common.classify_exception(e),)
    finally:
        _unguard()
        mca._steady_state_worker = orig  # noqa: SLF001
    return {"out": out, "before": before, "after": snapshot(m), "trace": trace}


# ---------------------------------------------------------------------------------------
# independent oracle (Fractions; shares nothing with the Coq model)
# ---------------------------------------------------------------------------------------


def _F(x) -> Fraction:
    return common.to_fraction(x)


def _is_b64(fr: Fraction) -> bool:
    try:
        return Fraction(float(fr)) == fr
    except OverflowError:
        return False


def flux_exact(fs, env: dict[str, Fraction]) -> Fraction:
    v = Fraction(1)
    for a, n in fs:
        v *= env[a] ** n
    return v


def untouched(before: dict, after: dict) -> str | None:
    if before["pars"] != after["pars"]:
        return f"parameter values changed: {before['pars']} -> {after['pars']}"
    if before["inits"] != after["inits"]:
        return f"initial values changed: {before['inits']} -> {after['inits']}"
    if before["raw"] != after["raw"]:
        return "raw parameter/variable containers changed (an assignment was replaced by a number?)"
    return None


def elast_oracle(case: dict, res: dict, rule: str | None = None) -> tuple[str | None, dict]:
    """Judge one elasticity call.  Returns (violation text | None, stats).

    `rule` is the displacement rule the check EXPECTS of the tree (ExpectedFacts.v): under QuotCentralRel the cells at
    a zero value are the recorded finding c18-zero-state and are not judged; under QuotCentralRelAbs0 they are judged
    against the partial derivative (unscaled) / 0 (scaled, flux non-zero).  Cells whose scaled partial derivative
    value/flux * dv/dx is itself undefined (flux 0) are never judged."""
    rule = rule or expected_quot()
    stats = {"cells": 0, "zero_guard_cells": 0, "undefined_cells": 0, "zero_cells_judged": 0, "exact_ok": True}
    net = case["net"]
    bad = untouched(res["before"], res["after"])
    if bad:
        return f"{case['kind']}_elasticities left the model changed: {bad}", stats
    if case["variables"] is not None and res["variables_arg_after"] != case["variables"]:
        return f"{case['kind']}_elasticities modified the caller's `variables` dict", stats
    kind = case["kind"]
    names_ok = list(net["vars"]) if kind == "var" else list(net["pars"])
    scan = case["to_scan"] if case["to_scan"] is not None else names_ok
    variables = case["variables"] if case["variables"] is not None else net["vars"]
    if any(s not in names_ok for s in scan) or any(v not in variables for v in net["vars"]):
        # a name that does not exist: the call must fail, not return numbers
        if res["out"][0] == "Ok":
            return f"{kind}_elasticities returned numbers although {scan} names something that does not exist", stats
        return None, stats
    if res["out"][0] != "Ok":
        return f"{kind}_elasticities raised {res['out'][0]} on a well-formed power-law network", stats
    _, table, index = res["out"]
    if [c for c, _ in table] != list(dict.fromkeys(scan)) or index != [f"v{i}" for i in range(len(net["rxns"]))]:
        return f"result axes wrong: columns {[c for c, _ in table]} index {index}", stats
    d = Fraction(1, 10000) if case["d"] is None else _F(case["d"])
    env = {k: _F(v) for k, v in net["pars"].items()} | {k: _F(v) for k, v in variables.items()}
    for col, cells in table:
        old = env[col]
        for r, fs in enumerate(net["rxns"]):
            got = cells[r]
            n = sum(k for a, k in fs if a == col)
            flux = flux_exact(fs, env)
            stats["cells"] += 1
            if case["normalized"] and flux == 0:
                stats["undefined_cells"] += 1  # value/flux * dv/dx has no value: nothing to compare with
                continue
            if old == 0 and rule != "QuotCentralRelAbs0":
                stats["zero_guard_cells"] += 1  # known finding c18-zero-state: NaN where the value is 0
                continue
            rest = flux_exact([(a, k) for a, k in fs if a != col], env)
            deriv = n * rest * old ** (n - 1) if n else Fraction(0)
            exact = Fraction(n) if case["normalized"] else deriv
            if old == 0:
                # repaired rule at a zero value: +-d absolute, divisor 2d (C18_zero_state_repaired_*): the scaled
                # coefficient is 0 (flux non-zero => order 0), the unscaled one the derivative up to |rest| d^2
                stats["zero_cells_judged"] += 1
                if got is None:
                    return (f"{kind} elasticity d v{r}/d {col} is NaN/inf at the zero value of {col} although the "
                            f"{'scaled coefficient is 0' if case['normalized'] else 'partial derivative is ' + str(float(deriv))} there"), stats
                tol0 = abs(rest) * d * d + Fraction(1, 10**6) * max(1, abs(exact))
                if abs(_F(got) - exact) > tol0:
                    return (f"{kind} elasticity of v{r} w.r.t. {col} at the zero value of {col} is {got}, expected {float(exact)} "
                            f"(|diff| {float(abs(_F(got) - exact)):.3g} > {float(tol0):.3g}; displacement {float(d)})"), stats
                up0, lo0 = flux_exact(fs, env | {col: d}), flux_exact(fs, env | {col: -d})
                parts0 = [up0, lo0, up0 - lo0, 2 * d, (up0 - lo0) / (2 * d)]
                if not all(_is_b64(p) for p in parts0):
                    stats["exact_ok"] = False
                continue
            if got is None:
                return f"{kind} elasticity d v{r}/d {col} is NaN/inf at a non-zero state (value {float(old)}, flux {float(flux)})", stats
            if case["normalized"] or n == 0:
                tol = (Fraction(2) ** n * d * d + Fraction(1, 10**6)) * max(1, abs(exact))
            else:
                # the PROVED bound is relative (C18_every_nonzero_value_relative): v = c x^(n-1) (n + e), 0 <= e <= 2^n d^2,
                # whatever the magnitude of x; 1e-6 of the same scale for rounding (observed < 1e-9).  An absolute
                # floor would hide a wrong derivative at a tiny value (partial derivative 2 k S = 1.2e-8 at S = 2e-9).
                tol = (Fraction(2) ** n * d * d + Fraction(1, 10**6)) * abs(rest * old ** (n - 1))
            if abs(old) <= TINY_LIMIT:
                stats["tiny_cells_judged"] = stats.get("tiny_cells_judged", 0) + 1
                if n != 1 and n != 0:
                    stats["tiny_cells_order_ne_1"] = stats.get("tiny_cells_order_ne_1", 0) + 1
            if abs(_F(got) - exact) > tol:
                what = f"kinetic order {n}" if case["normalized"] else f"partial derivative {float(deriv)}"
                return (f"{kind} elasticity of v{r} w.r.t. {col} is {got}, expected {what} "
                        f"(|diff| {float(abs(_F(got) - exact)):.3g} > {float(tol):.3g}; displacement {float(d)})"), stats
            # binary64 exactness of the central-difference computation (gate for the in-Coq comparison)
            up = flux_exact(fs, env | {col: old * (1 + d)})
            lo = flux_exact(fs, env | {col: old * (1 - d)})
            q = (up - lo) / (2 * d * old)
            parts = [old * (1 + d), old * (1 - d), up, lo, up - lo, 2 * d * old, q]
            if case["normalized"]:
                parts += [old / flux, q * (old / flux)]
            if not all(_is_b64(p) for p in parts):
                stats["exact_ok"] = False
    return None, stats


def chain_net(rng) -> dict:
    """-> x0 -> x1 -> ... ->   with v0 = k0 and v_i = k_i * x_{i-1}^{n_i}; steady state x_{i-1} = (k0/k_i)^(1/n_i)."""
    n = rng.randint(1, 3)
    orders = [rng.choice([1, 1, 2]) for _ in range(n)]
    dy = [0.5, 1.0, 2.0, 3.0, 4.0, 1.5]
    net = {"vars": {f"x{i}": rng.choice(dy) for i in range(n)}, "pars": {f"k{i}": rng.choice(dy) for i in range(n + 1)},
           "rxns": [[("k0", 1)]] + [[(f"k{i + 1}", 1), (f"x{i}", orders[i])] for i in range(n)], "stoich": {}, "chain_orders": orders}
    net["stoich"][0] = {"x0": 1.0}
    for i in range(n):
        st = {f"x{i}": -1.0}
        if i + 1 < n:
            st[f"x{i + 1}"] = 1.0
        net["stoich"][i + 1] = st
    return net


def cycle_net(rng) -> dict:
    """x0 <-> x1 with v0 = k0*x0 (x0 -> x1) and v1 = k1*x1 (x1 -> x0): the total T = x0 + x1 is conserved, so the
    steady state x0 = T k1/(k0+k1), x1 = T k0/(k0+k1) DEPENDS on the initial values the run starts from."""
    dy = [0.5, 1.0, 2.0, 3.0, 4.0, 1.5]
    return {"vars": {"x0": rng.choice(dy), "x1": rng.choice(dy)}, "pars": {"k0": rng.choice(dy), "k1": rng.choice(dy)},
            "rxns": [[("k0", 1), ("x0", 1)], [("k1", 1), ("x1", 1)]],
            "stoich": {0: {"x0": -1.0, "x1": 1.0}, 1: {"x1": -1.0, "x0": 1.0}}, "cycle": True}


def branch_net(rng) -> dict:
    """-> x0 (v0 = k0), x0 -> (v1 = k1*x0), x0 -> (v2 = k2*x0): steady state x0 = k0/(k1+k2), J1 = k1 x0, J2 = k2 x0
    (Coq: branch_steady / C18_response_branched; flux response coefficients that are neither 0 nor 1)."""
    dy = [0.5, 1.0, 2.0, 3.0, 4.0, 1.5]
    return {"vars": {"x0": rng.choice(dy)}, "pars": {"k0": rng.choice(dy), "k1": rng.choice(dy), "k2": rng.choice(dy)},
            "rxns": [[("k0", 1)], [("k1", 1), ("x0", 1)], [("k2", 1), ("x0", 1)]],
            "stoich": {0: {"x0": 1.0}, 1: {"x0": -1.0}, 2: {"x0": -1.0}}, "branch": True}


def branch_expected(net: dict, normalized: bool) -> dict:
    """{(row, parameter): analytic coefficient} for the branch point."""
    k0, k1, k2 = (float(net["pars"][k]) for k in ("k0", "k1", "k2"))
    s = k1 + k2
    x = k0 / s
    val = {"x0": x, "v0": k0, "v1": k1 * x, "v2": k2 * x}
    sc = {("x0", "k0"): 1.0, ("x0", "k1"): -k1 / s, ("x0", "k2"): -k2 / s,
          ("v0", "k0"): 1.0, ("v0", "k1"): 0.0, ("v0", "k2"): 0.0,
          ("v1", "k0"): 1.0, ("v1", "k1"): k2 / s, ("v1", "k2"): -k2 / s,
          ("v2", "k0"): 1.0, ("v2", "k1"): -k1 / s, ("v2", "k2"): k1 / s}
    if normalized:
        return sc
    kk = {"k0": k0, "k1": k1, "k2": k2}
    return {(r, p): c * val[r] / kk[p] for (r, p), c in sc.items()}


def cycle_expected(net: dict, y0: dict | None, normalized: bool) -> dict:
    """{(row, parameter): analytic coefficient} for the conserved two-pool cycle."""
    k0, k1 = float(net["pars"]["k0"]), float(net["pars"]["k1"])
    init = dict(net["vars"]) | (y0 or {})
    T = float(init["x0"]) + float(init["x1"])
    s = k0 + k1
    val = {"x0": T * k1 / s, "x1": T * k0 / s, "v0": T * k0 * k1 / s, "v1": T * k0 * k1 / s}
    sc = {("x0", "k0"): -k0 / s, ("x0", "k1"): k0 / s, ("x1", "k0"): k1 / s, ("x1", "k1"): -k1 / s,
          ("v0", "k0"): k1 / s, ("v0", "k1"): k0 / s, ("v1", "k0"): k1 / s, ("v1", "k1"): k0 / s}
    if normalized:
        return sc
    kk = {"k0": k0, "k1": k1}
    return {(r, p): c * val[r] / kk[p] for (r, p), c in sc.items()}


def _tables_close(a, b, rtol=1e-9, atol=1e-12) -> bool:
    if [c for c, _ in a] != [c for c, _ in b]:
        return False
    for (_, xs), (_, ys) in zip(a, b):
        if len(xs) != len(ys):
            return False
        for x, y in zip(xs, ys):
            if (x is None) != (y is None):
                return False
            if x is not None and abs(x - y) > atol + rtol * max(abs(x), abs(y)):
                return False
    return True


def zero_chain_oracle(case: dict, seq: dict, stats: dict, rule: str) -> tuple[str | None, dict]:
    """Linear chain (orders 1) with k0 = 0, unscaled, only k0 scanned: x_i = k0/k_(i+1), so d x_i/d k0 = 1/k_(i+1) and
    d v_j/d k0 = 1.  Under QuotCentralRel the whole column is NaN (finding c18-zero-state, not judged)."""
    net = case["net"]
    _, ctab, ftab, _, _ = seq["out"]
    for (p, ccells), (_, fcells) in zip(ctab, ftab):
        if p != "k0" or case["normalized"]:
            continue
        exp = [1.0 / float(net["pars"][f"k{i + 1}"]) for i in range(len(ccells))] + [1.0] * len(fcells)
        for name, got, e in zip([f"x{i}" for i in range(len(ccells))] + [f"v{j}" for j in range(len(fcells))], list(ccells) + list(fcells), exp):
            stats["cells"] += 1
            if rule != "QuotCentralRelAbs0":
                stats["zero_guard_cells"] = stats.get("zero_guard_cells", 0) + 1
                continue
            if got is None:
                return f"response coefficient of {name} w.r.t. k0 is NaN at k0 = 0 although the sensitivity is {e}", stats
            if abs(got - e) > 5e-2 * max(1.0, abs(e)):
                return f"response coefficient of {name} w.r.t. k0 at k0 = 0 is {got}, analytic steady-state sensitivity is {e}", stats
    return None, stats


def resp_oracle(case: dict, seq: dict, par: dict | None, rule: str | None = None) -> tuple[str | None, dict]:
    stats = {"cells": 0, "nan_cells": 0}
    net = case["net"]
    for mode, res in (("sequential", seq), ("parallel", par)):
        if res is None:
            continue
        bad = untouched(res["before"], res["after"])
        if bad:
            return f"response_coefficients ({mode}) left the model changed: {bad}", stats
    scan = case["to_scan"] if case["to_scan"] is not None else list(net["pars"])
    valid = all(s in net["pars"] for s in scan) and all(k in net["vars"] for k in (case["y0"] or {}))
    if not valid:
        if seq["out"][0] == "Ok":
            return "response_coefficients returned numbers although a scanned parameter / y0 key does not exist", stats
        return None, stats
    if seq["out"][0] != "Ok":
        return f"response_coefficients (sequential) raised {seq['out'][0]} on a well-formed network", stats
    if par is not None:
        if par["out"][0] != "Ok":
            return f"response_coefficients (parallel) raised {par['out'][0]} although the sequential run succeeds", stats
        if not (_tables_close(seq["out"][1], par["out"][1]) and _tables_close(seq["out"][2], par["out"][2])):
            return "response_coefficients: sequential and parallel execution return different coefficients", stats
    if net.get("cycle") or net.get("branch"):
        exp = cycle_expected(net, case["y0"], case["normalized"]) if net.get("cycle") else branch_expected(net, case["normalized"])
        _, ctab, ftab, cidx, fidx = seq["out"]
        if [c for c, _ in ctab] != list(dict.fromkeys(scan)) or cidx != list(net["vars"]) or fidx != [f"v{i}" for i in range(len(net["rxns"]))]:
            return f"result axes wrong: columns {[c for c, _ in ctab]} rows {cidx} / {fidx}", stats
        for tab, rows in ((ctab, cidx), (ftab, fidx)):
            for p, cells_ in tab:
                for r, got in zip(rows, cells_):
                    stats["cells"] += 1
                    if got is None:
                        stats["nan_cells"] += 1
                    elif abs(got - exp[(r, p)]) > 5e-2 * max(1.0, abs(exp[(r, p)])):
                        return (f"response coefficient of {r} w.r.t. {p} is {got}, analytic steady-state sensitivity "
                                f"(started from the given initial values) is {exp[(r, p)]}"), stats
        return None, stats
    orders = net.get("chain_orders")
    if orders is None:
        return None, stats
    # closed form for the chain
    k = {p: _F(v) for p, v in net["pars"].items()}
    nv = len(orders)
    if k["k0"] == 0:
        return zero_chain_oracle(case, seq, stats, rule or expected_quot())
    xss = [float(k["k0"] / k[f"k{i + 1}"]) ** (1.0 / orders[i]) for i in range(nv)]
    _, ctab, ftab, cidx, fidx = seq["out"]
    if [c for c, _ in ctab] != list(dict.fromkeys(scan)) or cidx != [f"x{i}" for i in range(nv)] or fidx != [f"v{i}" for i in range(nv + 1)]:
        return f"result axes wrong: columns {[c for c, _ in ctab]} rows {cidx} / {fidx}", stats
    for (p, ccells), (_, fcells) in zip(ctab, ftab):
        pi = int(p[1:])
        for i in range(nv):
            stats["cells"] += 1
            sc = (1.0 / orders[i]) if pi == 0 else (-1.0 / orders[i] if pi == i + 1 else 0.0)
            exp = sc if case["normalized"] else sc * xss[i] / float(k[p])
            got = ccells[i]
            if got is None:
                stats["nan_cells"] += 1
                continue
            if abs(got - exp) > 5e-2 * max(1.0, abs(exp)):
                return f"response coefficient of x{i} w.r.t. {p} is {got}, analytic steady-state sensitivity is {exp}", stats
        for j in range(nv + 1):
            stats["cells"] += 1
            sc = 1.0 if pi == 0 else 0.0
            exp = sc if case["normalized"] else sc * float(k["k0"]) / float(k[p])
            got = fcells[j]
            if got is None:
                stats["nan_cells"] += 1
                continue
            if abs(got - exp) > 5e-2 * max(1.0, abs(exp)):
                return f"flux response coefficient of v{j} w.r.t. {p} is {got}, analytic value is {exp}", stats
    return None, stats


# ---------------------------------------------------------------------------------------
# Gallina printers / correspondence files
# ---------------------------------------------------------------------------------------


def c_alist(items) -> str:
    return clist(f"({cn(code_of(k))}, {cq(_F(v))})" for k, v in items)


def c_state(snap: dict) -> str:
    return f"(mkState {c_alist(snap['pars'])} {c_alist(snap['inits'])})"


def c_net(net: dict) -> str:
    return clist(clist(f"({cn(code_of(a))}, {common.cnat(n)})" for a, n in fs) for fs in net["rxns"])


def c_cell(x) -> str:
    return "None" if x is None else f"(Some {cq(_F(x))})"


def c_table(table) -> str:
    return clist(f"({cn(code_of(c))}, {clist(map(c_cell, cells))})" for c, cells in table)


def c_names(names) -> str:
    return clist(cn(code_of(s)) for s in names)


def coq_elast_case(case: dict, res: dict) -> str:
    net = case["net"]
    scan = case["to_scan"] if case["to_scan"] is not None else (list(net["vars"]) if case["kind"] == "var" else list(net["pars"]))
    variables = copt(c_alist(case["variables"].items())) if case["variables"] is not None else "None"
    exp = copt(c_table(res["out"][1])) if res["out"][0] == "Ok" else "None"
    return (f"(({c_net(net)}, {c_state(res['before'])}, {variables}, {c_names(scan)}), "
            f"({cq(_F(case['d']))}, {cbool(case['normalized'])}), ({exp}, {c_state(res['after'])}))")


def coq_resp_case(case: dict, res: dict) -> str:
    net = case["net"]
    scan = case["to_scan"] if case["to_scan"] is not None else list(net["pars"])
    y0 = copt(c_alist(case["y0"].items())) if case["y0"] is not None else "None"
    if res["out"][0] == "Ok":
        exp = copt(f"({c_state(res['after'])}, {clist(c_state(t) for t in res['trace'])})")
    else:
        exp = "None"
    return f"(({c_state(res['before'])}, {y0}, {c_names(scan)}), ({cq(_F(case['d']))}, {cbool(case['normalized'])}), {exp})"


def corr_file(var_cases: list[str], par_cases: list[str], resp_cases: list[str]) -> str:
    def lst(xs):
        return "[\n  " + ";\n  ".join(xs) + "\n]" if xs else "[]"

    return (
        "From Coq Require Import QArith List NArith Bool.\nFrom MxlBase Require Import ListX.\n"
        "From Mca Require Import Mca GenMcaFacts.\nImport ListNotations.\nOpen Scope Q_scope.\n"
        "Definition ecase := (list plrxn * mstate * option alist * list name * (Q * bool) * (option (list (name * list cell)) * mstate))%type.\n"
        f"Definition var_cases : list ecase := {lst(var_cases)}.\n"
        f"Definition par_cases : list ecase := {lst(par_cases)}.\n"
        "Definition rcase := (mstate * option alist * list name * (Q * bool) * option (mstate * list mstate))%type.\n"
        f"Definition resp_cases : list rcase := {lst(resp_cases)}.\n"
        "Definition var_ok (c : ecase) : bool := match c with (net, st, vs, scan, (d, nrm), (exp, st_after)) =>\n"
        "  state_eqb st st_after &&\n"
        "  match var_elast gen_mca_facts (pl_fluxes net) d nrm vs scan st, exp with\n"
        "  | Some t, Some e => table_eqb t e | None, None => true | _, _ => false end end.\n"
        "Definition par_ok (c : ecase) : bool := match c with (net, st, vs, scan, (d, nrm), (exp, st_after)) =>\n"
        "  match par_elast gen_mca_facts (pl_fluxes net) d nrm vs scan st, exp with\n"
        "  | Some (st', t), Some e => table_eqb t e && state_eqb st' st_after | None, None => true | _, _ => false end end.\n"
        "Definition resp_ok (c : rcase) : bool := match c with (st, y0, scan, (d, nrm), exp) =>\n"
        "  match resp_seq gen_mca_facts d nrm y0 scan st, exp with\n"
        "  | Some (st', rs), Some (st_after, tr) =>\n"
        "      state_eqb st' st_after && list_eqb state_eqb (flat_map (fun pr => r_obs (snd pr)) rs) tr\n"
        "  | None, None => true | _, _ => false end end.\n"
        "Eval vm_compute in filter_idx (fun c => negb (var_ok c)) var_cases.\n"
        "Eval vm_compute in filter_idx (fun c => negb (par_ok c)) par_cases.\n"
        "Eval vm_compute in filter_idx (fun c => negb (resp_ok c)) resp_cases.\n"
    )


# ---------------------------------------------------------------------------------------
# case generation
# ---------------------------------------------------------------------------------------

_DYADIC_D = [2.0**-10, 2.0**-7, 2.0**-4]

# tiny but NON-ZERO values (3rd pass): powers of two 2^-11 .. 2^-40 (exactly representable; most of them below 1e-8, the
# magnitude at which a "close to zero" test would start to treat a nanomolar concentration like zero)
TINY_LIMIT = Fraction(1, 2**10)
_TINY_EXPONENTS = list(range(11, 27)) + 3 * list(range(27, 41))


def tiny_value(rng) -> float:
    return 2.0 ** -rng.choice(_TINY_EXPONENTS) * rng.choice([1, 1, 1, -1])


def gen_tiny_case(rng, exact: bool) -> dict:
    """An elasticity case in which a scanned variable / parameter has a tiny non-zero value and enters some rate law
    with kinetic order 2 or 3 (the scaled elasticity is the order whatever the magnitude -- C18_scaled_coefficient_scale_free;
    the unscaled one is n c x^(n-1) up to the RELATIVE error 2^n d^2 -- C18_every_nonzero_value_relative)."""
    kind = rng.choice(["var", "par"])
    normalized = rng.random() < 0.5
    nv, npar = rng.randint(1, 3), rng.randint(1, 3)
    vs = [f"x{i}" for i in range(nv)]
    ps = [f"k{i}" for i in range(npar)]
    target = rng.choice(vs if kind == "var" else ps)
    if exact:
        pool = [0.5, 1.0, 2.0, 4.0, -1.0, -2.0] if normalized else [-3.0, -2.0, -1.0, 1.0, 2.0, 3.0, 4.0, 0.5, 1.5]
        d: float | None = rng.choice(_DYADIC_D)
    else:
        pool = None
        d = None if rng.random() < 0.7 else rng.choice([1e-3, 1e-5, 2.0**-10])

    def ordinary() -> float:
        if pool is not None:
            return rng.choice(pool)
        return round(rng.uniform(0.2, 3.0), 3) * rng.choice([1, 1, 1, -1])

    def val(name: str) -> float:
        if name == target or rng.random() < 0.25:
            return tiny_value(rng)
        return ordinary()

    net_vars = {v: val(v) for v in vs}
    net_pars = {p: val(p) for p in ps}
    # first reaction: the target with order 2 or 3 (plus a rate constant / one more factor), then random ones
    n_t = rng.choice([2, 2, 3])
    first = [(target, n_t)]
    others = [a for a in vs + ps if a != target]
    if others and rng.random() < 0.8:
        first.insert(0, (rng.choice(others), 1))
    rxns = [first]
    for _ in range(rng.randint(0, 3)):
        names = [rng.choice(ps)] + [rng.choice(vs + vs + ps) for _ in range(rng.randint(0, 2))]
        fs, total = [], 0
        for a in names:
            n = min(rng.choice([0, 1, 1, 2, 2, 3]), 4 - total)
            total += n
            fs.append((a, n))
        rxns.append(fs)
    rng.shuffle(rxns)
    net = {"vars": net_vars, "pars": net_pars, "rxns": rxns}
    names = vs if kind == "var" else ps
    to_scan = None
    if rng.random() < 0.3:
        rest = [a for a in names if a != target]
        to_scan = [target] + rng.sample(rest, rng.randint(0, len(rest)))
        rng.shuffle(to_scan)
    variables = None
    if rng.random() < 0.35:
        # a user-supplied state: other tiny values than the model's own
        variables = {v: (tiny_value(rng) if (v == target or rng.random() < 0.25) else ordinary()) for v in vs}
    return {"kind": kind, "net": net, "to_scan": to_scan, "variables": variables, "time": rng.choice([0, 0, 1.5]),
            "normalized": normalized, "d": d, "tiny": True}


def gen_elast_case(rng, exact: bool) -> dict:
    kind = rng.choice(["var", "par"])
    normalized = rng.random() < 0.5
    if exact:
        mode = "pow2" if normalized else "int"
        d: float | None = rng.choice(_DYADIC_D)
    else:
        mode = "float"
        d = None if rng.random() < 0.6 else rng.choice([1e-3, 1e-5, 2.0**-10])
    net = gen_net(rng, mode)
    names = list(net["vars"]) if kind == "var" else list(net["pars"])
    to_scan = None
    r = rng.random()
    if r < 0.35:
        to_scan = rng.sample(names, rng.randint(1, len(names)))
    elif r < 0.42:
        to_scan = names[:1] + [rng.choice(["zz", "x7", "k9"])]  # a name that does not exist
    variables = None
    if rng.random() < 0.4:
        src = gen_net(rng, mode)  # fresh values
        pool = list(src["vars"].values()) + list(src["pars"].values())
        variables = {v: rng.choice(pool) for v in net["vars"]}
        if mode == "float":
            variables = {k: (v if v != 0 else 1.0) for k, v in variables.items()}
    return {"kind": kind, "net": net, "to_scan": to_scan, "variables": variables, "time": rng.choice([0, 0, 1.5]),
            "normalized": normalized, "d": d}


def gen_resp_case(rng, exact: bool) -> dict:
    r0 = rng.random()
    net = cycle_net(rng) if r0 < 0.30 else (branch_net(rng) if r0 < 0.50 else chain_net(rng))
    if r0 >= 0.92 and all(o == 1 for o in net["chain_orders"]):
        # a scanned parameter whose value is exactly 0 (linear chain, unscaled, k0 only): the whole column is NaN under
        # the relative rule (finding c18-zero-state), the sensitivities 1/k_i and 1 under the repaired rule
        net["pars"]["k0"] = 0.0
        return {"net": net, "to_scan": ["k0"], "y0": None, "normalized": False, "d": rng.choice(_DYADIC_D[:2]) if exact else None}
    to_scan = None
    r = rng.random()
    if r < 0.4:
        ps = list(net["pars"])
        to_scan = rng.sample(ps, rng.randint(1, len(ps)))
    elif r < 0.47:
        to_scan = ["k0", rng.choice(["x0", "k9"])]
    y0 = None
    if rng.random() < 0.6:
        vs = list(net["vars"])
        y0 = {v: rng.choice([0.5, 1.0, 2.0, 5.0]) for v in rng.sample(vs, rng.randint(1, len(vs)))}
        if rng.random() < 0.06:
            y0["x9"] = 1.0
    d = rng.choice(_DYADIC_D[:2]) if exact else (None if rng.random() < 0.7 else 1e-3)
    return {"net": net, "to_scan": to_scan, "y0": y0, "normalized": rng.random() < 0.6, "d": d}


ZERO_STATE_WITNESS = {
    "kind": "var", "net": {"vars": {"x0": 0.0, "x1": 2.0}, "pars": {"k0": 2.0, "k1": 1.0}, "rxns": [[("k0", 1), ("x0", 1)], [("k1", 1), ("x1", 1)]]},
    "to_scan": None, "variables": None, "time": 0, "normalized": False, "d": None,
}
Y0_WITNESS = {"net": {"vars": {"x0": 1.0}, "pars": {"k0": 4.0, "k1": 2.0}, "rxns": [[("k0", 1)], [("k1", 1), ("x0", 1)]],
                      "stoich": {0: {"x0": 1.0}, 1: {"x0": -1.0}}, "chain_orders": [1]},
              "to_scan": None, "y0": {"x0": 5.0}, "normalized": True, "d": None}


def zero_state_reproduces() -> str | None:
    """The recorded finding: at a zero state the unscaled elasticity (a well-defined derivative) is NaN."""
    res = run_elast(ZERO_STATE_WITNESS)
    if res["out"][0] != "Ok":
        return None
    col = dict(res["out"][1]).get("x0")
    if col is not None and col[0] is None:
        return "variable_elasticities(normalized=False) at x0 = 0 returns NaN for d v0/d x0 although the derivative is k0 = 2 (relative displacement of 0 is 0)"
    return None


def _normalise_net(net: dict) -> dict:
    """JSON round trip turns tuples into lists and int keys into strings."""
    n = dict(net)
    n["rxns"] = [[(a, int(k)) for a, k in fs] for fs in net["rxns"]]
    if "stoich" in net:
        n["stoich"] = {int(k): v for k, v in net["stoich"].items()}
    return n


# ---------------------------------------------------------------------------------------
# the check
# ---------------------------------------------------------------------------------------


def check(run: Run) -> None:
    thorough = run.tier == "thorough"
    facts = gen()
    run.coverage["gen_facts"] = facts
    run.rule = (
        "random power-law networks (1-3 variables, 1-3 parameters, 1-4 reactions, kinetic orders 0-3, repeated arguments, "
        "negative / fractional / zero values), variable and parameter elasticities, scaled and unscaled, explicit `variables`, "
        "subsets of to_scan, unknown names; dyadic displacement for the exact in-Coq comparison, default 1e-4 and other "
        "displacements for the analytic oracle; power-law chains, branch points, conserved cycles and chains with a zero-valued "
        "scanned parameter for response coefficients (sequential with recorded trace, parallel); a stream of TINY non-zero values "
        "(+-2^-11 .. 2^-40, mostly below 1e-8) for a scanned variable / parameter that enters a rate law with kinetic order 2 or 3, "
        "scaled and unscaled, model state and user-supplied `variables`, dyadic displacement (exact in-Coq comparison) and the default "
        "1e-4 (oracle with the proved RELATIVE bound 2^n d^2). 4th pass, own streams c18-indirect / c18-indirect-resp: parameters acting INDIRECTLY -- power-law networks "
        "whose reactions read derived parameters (monomials / quotients of parameters, chained) and initial-assignment parameters, variables whose initial value is "
        "an assignment, scaled and unscaled elasticities against the TOTAL kinetic order through the computed parameters (dyadic half also compared in Coq), and "
        "response coefficients of chains with parameter-dependent yields (stoichiometry Derived(args=[n])) and conserved cycles whose initial value is assigned from "
        "a parameter, rate constants plain / assigned / derived, scan order shuffled, an unused parameter, y0 subsets; sequential (every steady-state run's model "
        "content predicted) and parallel. A case is non-trivial if some scanned quantity has kinetic order >= 1 in some reaction or the call is refused; "
        "distinct by content"
    )
    proofs_ok = run.check_proofs(AREA, PROPS)
    run.assumptions += [
        "Coq 8.16.1 kernel + vm_compute; theorems over Q are closed under the global context, C18_partial_derivative_R uses the standard real-number axioms (listed by Print Assumptions)",
        "fact extractor harness/c18.py::extract_facts (fail-closed: every statement of the three routines must match a known normalised text)",
        "modelled, not verified: CPython's evaluation of the rate functions (the flux function is a Section variable; instantiated with exact power laws), binary64 rounding (all theorems are over Q; the exact comparison uses dyadic inputs that are exact in binary64), the steady-state solver (Section variable `ss`: a deterministic function of parameters and initial values), pickling = deep copy and pebble's ordered map (parallel run = every worker on a copy of the caller's model)",
        "errors (KeyError for unknown names) are modelled as an outcome without the model content at the time of the error",
        "assignment-defined parameters, derived parameters and assigned initial values: modelled for the elasticities as computed parameters re-evaluated at every flux evaluation (McaIndirect.v `ifluxes`, compared in Coq on the dyadic half of the indirect stream) and as regression models (`iworker`, `skip_result`); the response coefficients of such models are validated by the closed-form oracle (harness/c18_indirect.py), not proved; the `time` argument is passed through",
        "correspondence harness: literal printer, recorder wrapped around mca._steady_state_worker, coqc output parser",
        "coq/mca/ExpectedFacts.v is a hand-edited switch (expected displacement rule: QuotCentralRel = snapshot with finding c18-zero-state, QuotCentralRelAbs0 = after fixes/C18-zero-state.diff), kept consistent with known_findings.d/C18.json by tools/c18_switch.py; the oracle judges cells at a zero value only under the repaired rule",
        "response coefficients: proved for the closed-form steady states of chain / branch point / cycle (Moebius dependence on one rate constant; the closed form is THE steady state of the written-out right-hand side); that the solver returns that steady state, and its accuracy (amplified by 1/(2 d)), is validated at 5e-2, not proved",
    ]

    rng = common.rng_for(run.seed, "c18")
    n_viol = 0
    dist: dict[str, int] = {}

    def bump(k: str) -> None:
        dist[k] = dist.get(k, 0) + 1

    def elast_nontrivial(case) -> bool:
        net = case["net"]
        names = case["to_scan"] or (list(net["vars"]) if case["kind"] == "var" else list(net["pars"]))
        return any(sum(k for a, k in fs if a == s) >= 1 for s in names for fs in net["rxns"]) or any(
            s not in net["vars"] and s not in net["pars"] for s in names)

    # ---- elasticities ------------------------------------------------------------------
    var_coq: list[tuple[str, dict]] = []
    par_coq: list[tuple[str, dict]] = []
    n_exact = 2400 if thorough else 500
    n_float = 1500 if thorough else 300
    cells = zero_cells = discarded = undefined = zero_judged = n_tiny_viol = 0
    rule = expected_quot()
    run.coverage["expected_displacement_rule"] = rule
    for i in range(n_exact + n_float):
        exact = i < n_exact
        case = gen_elast_case(rng, exact)
        res = run_elast(case)
        bump(f"{case['kind']}/{'exact' if exact else 'float'}/{'scaled' if case['normalized'] else 'unscaled'}")
        bump("outcome/" + res["out"][0])
        run.count_case(("elast", case), nontrivial=elast_nontrivial(case))
        bad, st = elast_oracle(case, res, rule)
        cells += st["cells"]
        zero_cells += st["zero_guard_cells"]
        undefined += st["undefined_cells"]
        zero_judged += st["zero_cells_judged"]
        if bad and n_viol < 4:
            n_viol += 1
            run.violation(bad, {"kind": "elast", "case": case})
        if exact:
            if not st["exact_ok"]:
                discarded += 1
                continue
            (var_coq if case["kind"] == "var" else par_coq).append((coq_elast_case(case, res), case))
        if i < 2:
            run.sample({"case": case, "out": res["out"]})

    # ---- tiny non-zero values (own random stream, so that the cases above stay the same) ------------
    trng = common.rng_for(run.seed, "c18-tiny")
    n_tiny_exact = 900 if thorough else 240
    n_tiny_float = 600 if thorough else 160
    tiny_judged = tiny_ne1 = 0
    for i in range(n_tiny_exact + n_tiny_float):
        exact = i < n_tiny_exact
        case = gen_tiny_case(trng, exact)
        res = run_elast(case)
        bump(f"tiny/{case['kind']}/{'exact' if exact else 'float'}/{'scaled' if case['normalized'] else 'unscaled'}")
        bump("outcome/" + res["out"][0])
        run.count_case(("elast", case), nontrivial=True)
        bad, st = elast_oracle(case, res, rule)
        cells += st["cells"]
        zero_cells += st["zero_guard_cells"]
        undefined += st["undefined_cells"]
        zero_judged += st["zero_cells_judged"]
        tiny_judged += st.get("tiny_cells_judged", 0)
        tiny_ne1 += st.get("tiny_cells_order_ne_1", 0)
        if bad and n_tiny_viol < 3:
            n_tiny_viol += 1
            run.violation(bad, {"kind": "elast", "case": case})
        if exact:
            if not st["exact_ok"]:
                discarded += 1
                continue
            (var_coq if case["kind"] == "var" else par_coq).append((coq_elast_case(case, res), case))
        if i < 1:
            run.sample({"case": case, "out": res["out"]})

    # ---- parameters acting indirectly (4th pass; own random streams, the cases above and below stay the same) -------
    from harness import c18_indirect as ind

    irng = common.rng_for(run.seed, "c18-indirect")
    n_ind_exact = 500 if thorough else 130
    n_ind_float = 400 if thorough else 90
    ivar_coq: list[tuple[str, dict]] = []
    ipar_coq: list[tuple[str, dict]] = []
    icells = icells_ind = idiscard = n_ind_viol = 0
    ind_cases = [ind.deep(c) for c in ind.IELAST_CORPUS]
    for i in range(n_ind_exact + n_ind_float):
        ind_cases.append(ind.gen_ielast_case(irng, i < n_ind_exact))
    for i, case in enumerate(ind_cases):
        exact = case["d"] is not None and i >= len(ind.IELAST_CORPUS) and i - len(ind.IELAST_CORPUS) < n_ind_exact
        res = run_elast(case)
        bump(f"indirect/{case['kind']}/{'exact' if exact else 'float'}/{'scaled' if case['normalized'] else 'unscaled'}")
        bump("outcome/" + res["out"][0])
        run.count_case(("ielast", case), nontrivial=True)
        bad, st = ind.ielast_oracle(case, res)
        icells += st["cells"]
        icells_ind += st["indirect_cells"]
        if bad and n_ind_viol < 3:
            n_ind_viol += 1
            run.violation(bad, {"kind": "ielast", "case": case})
        if exact and res["out"][0] == "Ok":
            if not st["exact_ok"]:
                idiscard += 1
                continue
            (ivar_coq if case["kind"] == "var" else ipar_coq).append((ind.coq_ielast_case(case, res), case))
        if i == 0:
            run.sample({"case": case, "out": res["out"]})
    rrng = common.rng_for(run.seed, "c18-indirect-resp")
    n_iresp = 110 if thorough else 26
    n_iresp_par = 14 if thorough else 4
    ircells = ircells_ind = irnan = itrace = n_iresp_viol = 0
    iresp_cases = [ind.deep(c) for c in ind.IRESP_CORPUS] + [ind.gen_iresp_case(rrng, j % 3 == 0) for j in range(n_iresp)]
    for i, case in enumerate(iresp_cases):
        seq = run_resp(case, parallel=False, record=True)
        with_par = i == 0 or (len(ind.IRESP_CORPUS) <= i < len(ind.IRESP_CORPUS) + n_iresp_par)
        par = run_resp(case, parallel=True, record=False) if with_par else None
        bump(f"indirect-resp/{case['net']['family']}/{'y0' if case['y0'] else 'no-y0'}/{'par+seq' if par else 'seq'}")
        bump("resp-outcome/" + seq["out"][0])
        run.count_case(("iresp", case, par is not None), nontrivial=True)
        bad, st = ind.iresp_oracle(case, seq, par)
        ircells += st["cells"]
        ircells_ind += st["indirect_cells"]
        irnan += st["nan_cells"]
        itrace += st["trace_points"]
        if bad and n_iresp_viol < 3:
            n_iresp_viol += 1
            run.violation(bad, {"kind": "iresp", "case": case, "parallel": par is not None})
        if i == 0:
            run.sample({"case": case, "out": seq["out"], "trace_len": len(seq["trace"])})
    run.coverage["indirect"] = {"elasticity_cells_judged": icells, "of_which_through_computed_parameters": icells_ind,
                                "exact_cases_discarded_not_binary64_exact": idiscard,
                                "response_cells_judged": ircells - irnan, "response_cells_nan": irnan,
                                "response_cells_of_indirect_parameters": ircells_ind,
                                "steady_state_runs_checked_against_predicted_model_content": itrace}

    # ---- response coefficients ---------------------------------------------------------
    resp_coq: list[tuple[str, dict]] = []
    n_resp_exact = 160 if thorough else 40
    n_resp_float = 120 if thorough else 24
    n_par = 24 if thorough else 4
    rcells = rnan = 0
    for i in range(n_resp_exact + n_resp_float):
        exact = i < n_resp_exact
        case = gen_resp_case(rng, exact)
        seq = run_resp(case, parallel=False, record=True)
        par = run_resp(case, parallel=True, record=False) if (not exact and i - n_resp_exact < n_par) else None
        bump(f"resp/{'exact' if exact else 'float'}/{'y0' if case['y0'] else 'no-y0'}/{'par+seq' if par else 'seq'}")
        bump("resp-outcome/" + seq["out"][0])
        run.count_case(("resp", case, par is not None), nontrivial=True)
        bad, st = resp_oracle(case, seq, par, rule)
        rcells += st["cells"]
        rnan += st["nan_cells"] + st.get("zero_guard_cells", 0)
        if bad and n_viol < 6:
            n_viol += 1
            run.violation(bad, {"kind": "resp", "case": case, "parallel": par is not None})
        if exact:
            resp_coq.append((coq_resp_case(case, seq), case))
        if i == 0:
            run.sample({"case": case, "out": seq["out"], "trace_len": len(seq["trace"])})
    # the stored witness of the (to be) fixed defect always runs
    seq = run_resp(Y0_WITNESS, parallel=False, record=False)
    bad, _ = resp_oracle(Y0_WITNESS, seq, None)
    run.count_case(("resp-witness",), nontrivial=True)
    if bad and n_viol < 7:
        n_viol += 1
        run.violation(bad, {"kind": "resp", "case": Y0_WITNESS, "parallel": False})

    # the witness of finding c18-zero-state always runs through the oracle: not judged under the relative rule (the
    # finding is replayed below), a VIOLATION with this replay once the repaired rule is the expected one
    zres = run_elast(ZERO_STATE_WITNESS)
    bad, _ = elast_oracle(ZERO_STATE_WITNESS, zres, rule)
    run.count_case(("zero-state-witness",), nontrivial=True)
    if bad and n_viol < 8:
        n_viol += 1
        run.violation(bad, {"kind": "elast", "case": ZERO_STATE_WITNESS})

    # ---- Monte-Carlo wrappers (mc.py): model untouched, rows equal independent runs ----------
    for j in range(6 if thorough else 2):
        bad = mc_check(rng, j)
        run.count_case(("mc", j, run.seed), nontrivial=True)
        bump("mc-wrapper")
        if bad and n_viol < 8:
            n_viol += 1
            run.violation(bad[0], bad[1])

    run.coverage["input_distribution"] = dist
    run.coverage["oracle"] = {"elasticity_cells_judged": cells - zero_cells - undefined, "cells_in_zero_guard": zero_cells,
                              "cells_scaled_derivative_undefined": undefined, "zero_value_cells_judged": zero_judged,
                              "exact_cases_discarded_not_binary64_exact": discarded,
                              "tiny_value_cells_judged": tiny_judged, "tiny_value_cells_with_order_ge_2": tiny_ne1,
                              "response_cells_judged": rcells - rnan, "response_cells_nan": rnan}

    # ---- correspondence inside Coq -------------------------------------------------------------
    files: dict[str, str] = {}
    layout: dict[str, tuple[list, list, list]] = {}
    size = 150
    nshards = max(math.ceil(len(var_coq) / size), math.ceil(len(par_coq) / size), math.ceil(len(resp_coq) / size), 1)
    for k in range(nshards):
        v, p, r = var_coq[k * size:(k + 1) * size], par_coq[k * size:(k + 1) * size], resp_coq[k * size:(k + 1) * size]
        name = f"c18_{k:03d}"
        files[name] = corr_file([c for c, _ in v], [c for c, _ in p], [c for c, _ in r])
        layout[name] = (v, p, r)
    ilayout: dict[str, tuple[list, list]] = {}
    for k in range(max(math.ceil(len(ivar_coq) / size), math.ceil(len(ipar_coq) / size), 1)):
        v, p = ivar_coq[k * size:(k + 1) * size], ipar_coq[k * size:(k + 1) * size]
        name = f"c18i_{k:03d}"
        files[name] = ind.corr_file([c for c, _ in v], [c for c, _ in p])
        ilayout[name] = (v, p)
    out = common.coq_eval_many(AREA, files, timeout_s=900)
    mism = 0
    for name in sorted(files):
        ok, txt = out[name]
        lists = common.parse_eval_list(txt) if ok else None
        if name in ilayout:
            if not ok or lists is None or len(lists) != 2:
                run.broken_correspondence.append(f"correspondence shard {name} did not evaluate: {txt[-300:]}")
                continue
            for which, idxs, group in zip(("variable_elasticities (computed parameters)", "parameter_elasticities (computed parameters)"), lists, ilayout[name]):
                for j in idxs:
                    mism += 1
                    if len(run.broken_correspondence) < 5:
                        run.broken_correspondence.append(f"model/implementation disagree on {which} case: {group[j][1]}")
            continue
        if not ok or lists is None or len(lists) != 3:
            run.broken_correspondence.append(f"correspondence shard {name} did not evaluate: {txt[-300:]}")
            continue
        for which, idxs, group in zip(("variable_elasticities", "parameter_elasticities", "response_coefficients"), lists, layout[name]):
            for j in idxs:
                mism += 1
                if len(run.broken_correspondence) < 5:
                    run.broken_correspondence.append(f"model/implementation disagree on {which} case: {group[j][1]}")
    total = len(var_coq) + len(par_coq) + len(resp_coq) + len(ivar_coq) + len(ipar_coq)
    run.coverage["traces_validated_against_impl"] = total - mism
    run.coverage["correspondence_mismatches"] = mism
    run.coverage["correspondence_cases"] = {"var": len(var_coq), "par": len(par_coq), "resp_traces": len(resp_coq),
                                            "var_computed_parameters": len(ivar_coq), "par_computed_parameters": len(ipar_coq)}

    # ---- known findings --------------------------------------------------------------------------
    for f in common.load_known_findings("C18"):
        if f.get("id") == "c18-zero-state":
            what = zero_state_reproduces()
            if what:
                run.known("c18-zero-state", what)
    if not proofs_ok:
        run.note("proof obligations broken; the generated networks were searched with the oracle for a concrete failing input")


def mc_check(rng, j: int):
    """mc.* wrappers: the caller's model is untouched and every row equals an independent sequential run."""
    import pandas as pd
    from mxlpy import mc, mca

    net = chain_net(rng)
    m = build_model(net)
    before = snapshot(m)
    pname = rng.choice(list(net["pars"]))
    scan = pd.DataFrame({pname: [rng.choice([0.5, 1.0, 2.0]), rng.choice([3.0, 4.0])]})
    variables = {"x0": rng.choice([0.5, 2.0, 5.0])} if j % 2 == 0 else None
    which = ["response", "variable", "parameter"][j % 3]
    rep = {"kind": "mc", "which": which, "net": net, "mc_par": pname, "mc_values": scan[pname].tolist(), "variables": variables}
    _guard(180.0)
    try:
        if which == "response":
            got = mc.response_coefficients(m, mc_to_scan=scan, to_scan=list(net["pars"]), variables=variables, disable_tqdm=True, max_workers=2)
            got_t = got.variables
        elif which == "variable":
            full = None if variables is None else dict(net["vars"]) | variables
            got_t = mc.variable_elasticities(m, mc_to_scan=scan, variables=full, max_workers=2)
        else:
            full = dict(net["vars"]) | (variables or {})
            got_t = mc.parameter_elasticities(m, mc_to_scan=scan, to_scan=list(net["pars"]), variables=full, max_workers=2)
        bad = untouched(before, snapshot(m))
        if bad:
            return f"mc.{which} wrapper left the caller's model changed: {bad}", rep
        for row, val in enumerate(scan[pname].tolist()):
            m2 = build_model(net)
            m2.update_parameters({pname: val})
            if which == "response":
                if variables:
                    m2.update_variables(variables)
                ind = mca.response_coefficients(m2, to_scan=list(net["pars"]), parallel=False, disable_tqdm=True).variables
            elif which == "variable":
                ind = mca.variable_elasticities(m2, variables=None if variables is None else dict(net["vars"]) | variables)
            else:
                ind = mca.parameter_elasticities(m2, to_scan=list(net["pars"]), variables=dict(net["vars"]) | (variables or {}))
            if not _tables_close(table_of(got_t.loc[row]), table_of(ind), rtol=1e-9, atol=1e-12):
                return f"mc.{which} row {row} differs from an independent run with {pname}={val}", rep
    except _Timeout:
        return f"mc.{which} did not return within 180 s", rep
    except Exception as e:  # noqa: BLE001
        return f"mc.{which} raised {type(e).__name__}: {e}", rep
    finally:
        _unguard()
    return None


def replay(rep: dict) -> int:
    r = rep["replay"]
    kind = r.get("kind")
    if kind == "elast":
        case = r["case"]
        case["net"] = _normalise_net(case["net"])
        res = run_elast(case)
        bad, _ = elast_oracle(case, res)
        print("outcome:", res["out"], "\nbefore:", res["before"], "\nafter: ", res["after"], "\noracle:", bad or "property holds on this input")
        return 1 if bad else 0
    if kind == "resp":
        case = r["case"]
        case["net"] = _normalise_net(case["net"])
        seq = run_resp(case, parallel=False, record=False)
        par = run_resp(case, parallel=True, record=False) if r.get("parallel") else None
        bad, _ = resp_oracle(case, seq, par)
        print("sequential:", seq["out"], "\nbefore:", seq["before"], "\nafter: ", seq["after"], "\noracle:", bad or "property holds on this input")
        return 1 if bad else 0
    if kind == "ielast":
        from harness import c18_indirect as ind

        case = r["case"]
        case["net"] = ind.normalise(case["net"])
        res = run_elast(case)
        bad, _ = ind.ielast_oracle(case, res)
        print("outcome:", res["out"], "\nbefore:", res["before"], "\nafter: ", res["after"], "\noracle:", bad or "property holds on this input")
        return 1 if bad else 0
    if kind == "iresp":
        from harness import c18_indirect as ind

        case = r["case"]
        case["net"] = ind.normalise(case["net"])
        seq = run_resp(case, parallel=False, record=True)
        par = run_resp(case, parallel=True, record=False) if r.get("parallel") else None
        bad, _ = ind.iresp_oracle(case, seq, par)
        print("sequential:", seq["out"], "\nbefore:", seq["before"], "\nafter: ", seq["after"], "\noracle:", bad or "property holds on this input")
        return 1 if bad else 0
    if kind == "mc":
        import random

        # re-run the same wrapper on the stored network
        net = _normalise_net(r["net"])

        class _Fixed(random.Random):
            pass

        bad = _mc_replay(net, r)
        print("oracle:", bad or "property holds on this input")
        return 1 if bad else 0
    print("nothing to replay:", rep.get("what"))
    return 1


def _mc_replay(net: dict, r: dict) -> str | None:
    import pandas as pd
    from mxlpy import mc

    m = build_model(net)
    before = snapshot(m)
    scan = pd.DataFrame({r["mc_par"]: r["mc_values"]})
    variables = r["variables"]
    try:
        if r["which"] == "response":
            mc.response_coefficients(m, mc_to_scan=scan, to_scan=list(net["pars"]), variables=variables, disable_tqdm=True, max_workers=2)
        elif r["which"] == "variable":
            mc.variable_elasticities(m, mc_to_scan=scan, variables=None if variables is None else dict(net["vars"]) | variables, max_workers=2)
        else:
            mc.parameter_elasticities(m, mc_to_scan=scan, to_scan=list(net["pars"]), variables=dict(net["vars"]) | (variables or {}), max_workers=2)
    except Exception as e:  # noqa: BLE001
        return f"raised {type(e).__name__}: {e}"
    bad = untouched(before, snapshot(m))
    return f"mc.{r['which']} wrapper left the caller's model changed: {bad}" if bad else None
