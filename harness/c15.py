"""C15 -- steady-state results are steady states; absence is reported as failure.

Tie to the source:
  (1) facts regenerated from src/mxlpy/integrators/int_scipy.py::Scipy.integrate_to_steady_state
      (step_size, max_steps, comparison, norm order, copy-vs-alias of scipy's output buffer, the
      relative-difference formula, the failure return, shape of every other statement) and from the
      error plumbing in simulator.py / scan.py / types.py / simulation.py into
      coq/steady/GenSteadyFacts.v -- PropsC15.v pins them (C15_facts_pinned);
  (2) correspondence: the Gallina loop `SteadyLoop.ss_run gen_ss_facts` is evaluated inside Coq
      (vm_compute) on CLOSED-FORM sampled trajectories of linear networks (computed here with
      mpmath, 50 digits, rounded to 2^-32 of each pool's largest value) and compared EXACTLY (success/failure and
      reported time; NaN-row or value-row of the scan worker) with the real
      Simulator.simulate_to_steady_state / scan._steady_state_worker.  Cases whose decision could
      be flipped by LSODA's integration error (margin = 50 error units, worst observed 3.2) are
      discarded from the exact comparison and counted as borderline;
  (3) an independent oracle judges the PROPERTY on the implementation's output: a reported state
      of a stable network must be within cond(V)*rho*(tol+slack) of the analytic steady state and
      its reported fluxes must balance on that scale; a network without steady state must be
      reported as failure unless its closed-form change per step really is below the tolerance;
  (4) HISTORIES of one Simulator (harness/c15_hist.py): simulate / simulate_time_course / simulate_to_steady_state
      in sequence (with integration failures injected into some steps), then get_result: the oracle demands a
      failure value whenever any step failed or the search cannot converge, and the searched steady state in the
      last row otherwise; what the integrator returned in every call is recorded and the Gallina history model
      (`hist_result gen_plumb_facts`) must reproduce get_result exactly (rows and error kind);
  (5) RECORDED RUNS: the buffers scipy's solver really returned and its `successful()` flags are handed to
      `ss_run_s gen_ss_facts` (exact rationals of the floats) and the outcome must equal the implementation's --
      also for solvers that FAIL (dx/dt = k x^2, dx/dt = k/(1-x): no solution beyond a finite time).
"""

from __future__ import annotations

import ast
import math
import signal
from fractions import Fraction
from typing import Any

from harness import c15_close, c15_hist, common
from harness.common import Run, clist, cq

AREA = "steady"
PROPS = "PropsC15.v"

STEP = 100  # what the oracle believes the sampling step to be (checked against the extracted fact)
ERR_UNIT_RTOL = 1e-6  # scipy.integrate.ode 'lsoda' defaults (the method does not pass its own atol/rtol)
ERR_UNIT_ATOL = 1e-12
M_BORDER = 50.0  # a decision closer to the threshold than 50 error units is "borderline" (worst observed: 3.2 units)
M_ORACLE = 320.0  # oracle slack: 100 x the worst observed integration error


# ---------------------------------------------------------------------------------------
# rate functions of the generated networks (real module-level functions)
# ---------------------------------------------------------------------------------------


def const(k):  # noqa: ANN001, ANN201
    return k


def ma1(s, k):  # noqa: ANN001, ANN201
    return k * s


# ---------------------------------------------------------------------------------------
# (1) fact extraction (fail-closed)
# ---------------------------------------------------------------------------------------


def _body(fn: ast.FunctionDef) -> list[ast.stmt]:
    return [s for s in fn.body if not (isinstance(s, ast.Expr) and isinstance(s.value, ast.Constant) and isinstance(s.value.value, str))]


def _src(fn: ast.FunctionDef | None) -> str | None:
    if fn is None:
        return None
    return ast.unparse(fn.args) + "\n" + "\n".join(ast.unparse(s) for s in _body(fn))


def _find(tree: ast.Module, cls: str | None, name: str) -> ast.FunctionDef | None:
    for n in tree.body:
        if cls is None and isinstance(n, ast.FunctionDef) and n.name == name:
            return n
        if cls is not None and isinstance(n, ast.ClassDef) and n.name == cls:
            for m in n.body:
                if isinstance(m, ast.FunctionDef) and m.name == name:
                    return m
    return None


_PRE = [
    "self.reset()",
    "integ = spi.ode(lambda t, x: list(self.rhs(t, x)), jac=self.jacobian)",
    "integ.set_integrator(name=self.method)",
    "integ.set_initial_value(self.y0)",
    "t = self.t0 + step_size",
    "y1 = copy.deepcopy(self.y0)",
]
_COPY_NEW = {
    "np.array(integ.integrate(t), dtype=float)",
    "np.array(integ.integrate(t))",
    "integ.integrate(t).copy()",
    "np.copy(integ.integrate(t))",
    "copy.deepcopy(integ.integrate(t))",
    "copy.copy(integ.integrate(t))",
}
_ALIAS_NEW = {"integ.integrate(t)", "np.asarray(integ.integrate(t))", "np.asarray(integ.integrate(t), dtype=float)"}
_COPY_PREV = {"y2.copy()", "np.array(y2)", "np.array(y2, dtype=float)", "np.copy(y2)", "copy.deepcopy(y2)", "copy.copy(y2)"}
_SUCC_CHECK = "if not integ.successful():\n    return Result(IntegrationFailure())"
_RETURN_OK = "return Result(TimeCourse(time=np.array([t], dtype=float), values=np.array([y2], dtype=float)))"

_TEMPLATES = {
    ("integrators/int_scipy.py", "Scipy", "reset"): "self\nself.t0 = 0\nself.y0 = self._y0_orig",
    ("integrators/int_scipy.py", "Scipy", "__post_init__"): "self\nself._y0_orig = self.y0",
}
_SIM_TEMPLATES = {
    ("simulator.py", "Simulator", "simulate_to_steady_state"): (
        "self, tolerance: float=1e-06, *, rel_norm: bool=False\n"
        "if len(self._errors) > 0:\n    return self\n"
        "self._handle_simulation_results(self.integrator.integrate_to_steady_state(tolerance=tolerance, rel_norm=rel_norm), skipfirst=False)\n"
        "return self"
    ),
    ("simulator.py", "Simulator", "_handle_simulation_results"): (
        "self, result: Result[TimeCourse], *, skipfirst: bool\n"
        "match result.value:\n"
        "    case TimeCourse(time=time, values=results):\n"
        "        if self._time_shift is not None:\n"
        "            time += self._time_shift\n"
        "        results_df = pd.DataFrame(data=results, index=time, columns=self.model.get_variable_names())\n"
        "        if self.variables is None:\n"
        "            self.variables = [results_df]\n"
        "        elif skipfirst:\n"
        "            self.variables.append(results_df.iloc[1:, :])\n"
        "        else:\n"
        "            self.variables.append(results_df)\n"
        "        if self.simulation_parameters is None:\n"
        "            self.simulation_parameters = []\n"
        "        self.simulation_parameters.append(self.model.get_parameter_values())\n"
        "    case _ as e:\n"
        "        self._errors.append(e)"
    ),
    ("simulator.py", "Simulator", "get_result"): (
        "self\n"
        "if len(self._errors) > 0:\n    return Result(self._errors[0])\n"
        "if (variables := self.variables) is None:\n    return Result(IntegrationFailure())\n"
        "if (parameters := self.simulation_parameters) is None:\n    return Result(IntegrationFailure())\n"
        "return Result(Simulation(model=self.model, raw_variables=variables, raw_parameters=parameters))"
    ),
}
_WORKER_TEMPLATES = {
    ("scan.py", None, "_steady_state_worker"): (
        "model: Model, *, rel_norm: bool, integrator: IntegratorType | None, y0: dict[str, float] | None\n"
        "try:\n"
        "    res = Simulator(model, integrator=integrator, y0=y0).simulate_to_steady_state(rel_norm=rel_norm).get_result()\n"
        "except ZeroDivisionError:\n"
        "    res = Result(Exception())\n"
        "return res.default(lambda: Simulation.default(model=model, time_points=np.array([0.0])))"
    ),
    ("types.py", "Result", "default"): (
        "self, fn: Callable[[], T]\nif isinstance((value := self.value), Exception):\n    return fn()\nreturn value"
    ),
    ("simulation.py", "Simulation", "default"): (
        "cls, model: Model, time_points: Array\n"
        "return Simulation(model=model, raw_variables=[pd.DataFrame(data=np.full(shape=(len(time_points), "
        "len(model.get_variable_names())), fill_value=np.nan), index=time_points, columns=model.get_variable_names())], "
        "raw_parameters=[model.get_parameter_values()])"
    ),
}


def _sim_methods_ok() -> bool:
    """simulate / simulate_time_course as the history model needs them: they start with the early return on recorded
    errors, hand exactly one integrator result to _handle_simulation_results(..., skipfirst=True) and return self.
    (Time bookkeeping in between is property C04/C14's business and deliberately not pinned here.)"""
    try:
        tree = ast.parse((common.REPO / "src/mxlpy/simulator.py").read_text())
    except (OSError, SyntaxError):
        return False
    for name, call in (("simulate", "self.integrator.integrate(t_end=t_end, steps=steps)"),
                       ("simulate_time_course", "self.integrator.integrate_time_course(time_points=time_points)")):
        fn = _find(tree, "Simulator", name)
        if fn is None:
            return False
        body = _body(fn)
        if len(body) < 3 or ast.unparse(body[0]) != "if len(self._errors) > 0:\n    return self":
            return False
        if ast.unparse(body[-1]) != "return self":
            return False
        handles = [n for n in ast.walk(fn) if isinstance(n, ast.Call) and ast.unparse(n.func) == "self._handle_simulation_results"]
        want = f"self._handle_simulation_results({call}, skipfirst=True)"
        if len(handles) != 1 or ast.unparse(body[-2]) != want:
            return False
        # nothing else may touch the error list or the stored frames
        for n in ast.walk(fn):
            if isinstance(n, (ast.Assign, ast.AugAssign, ast.AnnAssign)):
                tg = n.targets if isinstance(n, ast.Assign) else [n.target]
                if any(ast.unparse(t).startswith(("self._errors", "self.variables")) for t in tg):
                    return False
            if isinstance(n, ast.Call) and ast.unparse(n.func).startswith(("self._errors.", "self.variables.")):
                return False
    return True


def _templates_ok(templates: dict) -> bool:
    trees: dict[str, ast.Module] = {}
    for (f, cls, name), want in templates.items():
        try:
            if f not in trees:
                trees[f] = ast.parse((common.REPO / "src/mxlpy" / f).read_text())
            if _src(_find(trees[f], cls, name)) != want:
                return False
        except (OSError, SyntaxError):
            return False
    return True


_HANDLE_TREE = (
    "self, result: Result[TimeCourse], *, skipfirst: bool\n"
    "match result.value:\n"
    "    case TimeCourse(time=time, values=results):\n"
    "        if self._time_shift is not None:\n"
    "            time += self._time_shift\n"
    "        results_df = pd.DataFrame(data=results, index=time, columns=COLUMNS)\n"
    "        if self.variables is None:\n"
    "            self.variables = [results_df]\n"
    "        elif skipfirst:\n"
    "            self.variables.append(results_df.iloc[1:, :])\n"
    "        else:\n"
    "            self.variables.append(results_df)\n"
    "        if self.simulation_parameters is None:\n"
    "            self.simulation_parameters = []\n"
    "        self.simulation_parameters.append(self.model.get_parameter_values())\n"
    "    case _ as e:\n"
    "        self._errors.append(e)"
)
# the shape of seeded change C15-7: no skipfirst flag, only rows strictly later than the last stored time are kept
_HANDLE_LATER = (
    "self, result: Result[TimeCourse]\n"
    "match result.value:\n"
    "    case TimeCourse(time=time, values=results):\n"
    "        if self._time_shift is not None:\n"
    "            time += self._time_shift\n"
    "        results_df = pd.DataFrame(data=results, index=time, columns=COLUMNS)\n"
    "        if self.variables is None:\n"
    "            self.variables = [results_df]\n"
    "        else:\n"
    "            t_prev = self.variables[-1].index[-1]\n"
    "            results_df = results_df.loc[results_df.index > t_prev]\n"
    "            if results_df.empty:\n"
    "                return\n"
    "            self.variables.append(results_df)\n"
    "        if self.simulation_parameters is None:\n"
    "            self.simulation_parameters = []\n"
    "        self.simulation_parameters.append(self.model.get_parameter_values())\n"
    "    case _ as e:\n"
    "        self._errors.append(e)"
)
_LABELS = {"self.model.get_variable_names()": "LabModelNames", "list(self.y0)": "LabY0Keys", "list(self.y0.keys())": "LabY0Keys"}
_CLEAR = ("self\nself.variables = None\nself.dependent = None\nself.simulation_parameters = None\nself._time_shift = None\n"
          "self._errors = []\nself._initialise_integrator()")
_PLUMBING_STATE = ("self.variables", "self._errors", "self.simulation_parameters", "self._time_shift")


def _writes(fn: ast.AST, prefixes: tuple[str, ...]) -> list[str]:
    """assignments to / mutating calls on attributes starting with one of `prefixes`, as text"""
    out = []
    for n in ast.walk(fn):
        if isinstance(n, (ast.Assign, ast.AugAssign, ast.AnnAssign)):
            for t in (n.targets if isinstance(n, ast.Assign) else [n.target]):
                if ast.unparse(t).startswith(prefixes):
                    out.append(ast.unparse(n))
        if isinstance(n, ast.Call) and isinstance(n.func, ast.Attribute) and ast.unparse(n.func.value).startswith(prefixes):
            out.append(ast.unparse(n))
    return out


def extract_hist_facts() -> dict[str, Any]:
    """facts of the extended history model (coq/steady/SteadyHist2.v), fail-closed"""
    facts: dict[str, Any] = {"handle": "HkUnknown", "label": "LabUnknown", "ops_ok": False}
    try:
        tree = ast.parse((common.REPO / "src/mxlpy/simulator.py").read_text())
    except (OSError, SyntaxError):
        return facts
    fn = _find(tree, "Simulator", "_handle_simulation_results")
    if fn is not None:
        frames = [n for n in ast.walk(fn) if isinstance(n, ast.Call) and ast.unparse(n.func) == "pd.DataFrame"]
        if len(frames) == 1:
            cols = [k for k in frames[0].keywords if k.arg == "columns"]
            if len(cols) == 1:
                facts["label"] = _LABELS.get(ast.unparse(cols[0].value), "LabUnknown")
                cols[0].value = ast.Name(id="COLUMNS", ctx=ast.Load())
                text = _src(fn)
                callers = {}
                for name in ("simulate", "simulate_time_course", "simulate_to_steady_state"):
                    f = _find(tree, "Simulator", name)
                    calls = [] if f is None else [n for n in ast.walk(f) if isinstance(n, ast.Call)
                                                  and ast.unparse(n.func) == "self._handle_simulation_results"]
                    callers[name] = calls
                if text == _HANDLE_TREE:
                    others = {k: v for k, v in _SIM_TEMPLATES.items() if k[2] != "_handle_simulation_results"}
                    if _templates_ok(others) and _sim_methods_ok():
                        facts["handle"] = "HkSkipfirst"
                elif text == _HANDLE_LATER:
                    if all(len(c) == 1 and len(c[0].args) == 1 and not c[0].keywords for c in callers.values()):
                        facts["handle"] = "HkLaterOnly"
    ok = True
    init = _find(tree, "Simulator", "__init__")
    ii = _find(tree, "Simulator", "_initialise_integrator")
    uv = _find(tree, "Simulator", "update_variables")
    if init is None or ii is None or uv is None:
        return facts
    init_src = [ast.unparse(s) for s in _body(init)]
    for want in ("self.y0 = model.get_initial_conditions() if y0 is None else y0", "self._time_shift = None",
                 "self.variables = None", "self.simulation_parameters = None", "self._errors = []"):
        ok = ok and init_src.count(want) == 1
    ok = ok and bool(init_src) and init_src[-1] == "self._initialise_integrator()"
    ii_src = [ast.unparse(s) for s in _body(ii)]
    ok = ok and len(ii_src) >= 2 and ii_src[-2] == "y0 = self.y0" and ii_src[-1] == (
        "self.integrator = self._integrator_type(rhs, tuple((y0[k] for k in self.model.get_variable_names())), jac_fn)")
    ok = ok and not _writes(ii, (*_PLUMBING_STATE, "self.y0"))
    ok = ok and _src(_find(tree, "Simulator", "clear_results")) == _CLEAR
    for name, sig in (("update_parameter", "parameter, value"), ("update_parameters", "parameters"),
                      ("scale_parameter", "parameter, factor"), ("scale_parameters", "parameters")):
        f = _find(tree, "Simulator", name)
        ok = ok and f is not None and [ast.unparse(s) for s in _body(f)] == [f"self.model.{name}({sig})", "return self"]
    f = _find(tree, "Simulator", "update_variable")
    ok = ok and f is not None and [ast.unparse(s) for s in _body(f)] == ["return self.update_variables({variable: value})"]
    # update_variables: early branch without stored results (no time shift), otherwise _time_shift = time of the last
    # stored row; nothing else of the plumbing state is written (what happens to y0 is the integrator's business)
    ub = _body(uv)
    ok = ok and len(ub) >= 4 and ast.unparse(ub[0]) == "sim_variables = self.variables" and ast.unparse(ub[-1]) == "return self"
    if ok:
        early = ub[1]
        ok = (isinstance(early, ast.If) and ast.unparse(early.test) == "sim_variables is None" and not early.orelse
              and ast.unparse(early.body[-1]) == "return self" and not _writes(early, _PLUMBING_STATE)
              and any(ast.unparse(s) == "self._initialise_integrator()" for s in early.body))
        rest_writes = _writes(uv, _PLUMBING_STATE)
        tl = [ast.unparse(n) for n in ast.walk(uv) if isinstance(n, ast.Assign) and ast.unparse(n.targets[0]) == "t_last"]
        ok = ok and rest_writes == ["self._time_shift = t_last"] and tl == ["t_last = float(sim_variables[-1].index[-1])"]
        ok = ok and ast.unparse(ub[-2]) == "self._initialise_integrator()"
        y0w = {ast.unparse(n.value) for n in ast.walk(uv) if isinstance(n, ast.Assign) and ast.unparse(n.targets[0]) == "self.y0"}
        ok = ok and y0w <= {"self.y0 | variables", "sim_variables[-1].iloc[-1, :].to_dict() | variables"}
    facts["ops_ok"] = bool(ok)
    return facts


def extract_facts() -> dict[str, Any]:
    facts: dict[str, Any] = {
        "step": 0, "max_steps": 0, "cmp": "CmpUnknown", "norm": "NormUnknown", "prev": "PrevUnknown",
        "rel": "RelUnknown", "exhaust": "ExhaustUnknown", "succ": "SuccUnknown", "shape_ok": False,
        "sim_ok": False, "worker_ok": False, "default_tol": None,
    }
    try:
        tree = ast.parse((common.REPO / "src/mxlpy/integrators/int_scipy.py").read_text())
    except (OSError, SyntaxError):
        return facts
    fn = _find(tree, "Scipy", "integrate_to_steady_state")
    if fn is None:
        return facts
    shape_ok = True
    a = fn.args
    if [x.arg for x in a.args] != ["self"] or a.vararg or a.kwarg or [x.arg for x in a.kwonlyargs] != ["tolerance", "rel_norm", "step_size", "max_steps"]:
        shape_ok = False
    else:
        d = a.kw_defaults
        if d[0] is not None or d[1] is not None:
            shape_ok = False
        for key, node in (("step", d[2]), ("max_steps", d[3])):
            if isinstance(node, ast.Constant) and type(node.value) is int and 0 < node.value <= 10**6:
                facts[key] = node.value
            else:
                shape_ok = False
    body = _body(fn)
    if len(body) != len(_PRE) + 2 or [ast.unparse(s) for s in body[: len(_PRE)]] != _PRE:
        shape_ok = False
    loop = body[len(_PRE)] if len(body) > len(_PRE) else None
    norms = {"np.linalg.norm(diff, ord=2)", "np.linalg.norm(diff)", "np.linalg.norm(diff, 2)"}

    def norm_test(t: ast.expr) -> type | None:
        """operator of `<norm> OP tolerance` (mirrored when written `tolerance OP <norm>`), else None"""
        if not (isinstance(t, ast.Compare) and len(t.ops) == 1):
            return None
        left, op, right = ast.unparse(t.left), type(t.ops[0]), ast.unparse(t.comparators[0])
        if left in norms and right == "tolerance":
            return op
        if right in norms and left == "tolerance":
            return {ast.Lt: ast.Gt, ast.LtE: ast.GtE, ast.Gt: ast.Lt, ast.GtE: ast.LtE}.get(op)
        return None

    ok_loop = (
        isinstance(loop, ast.For)
        and ast.unparse(loop.target) == "_"
        and ast.unparse(loop.iter) == "range(max_steps)"
        and not loop.orelse
    )
    # two forms of the loop body (each with or without the test of integ.successful() after the first statement):
    #   A  y2 = ..; diff = ..; if norm < tol: return ok;  y1 = y2;  t += step_size                     (5 / 6 statements)
    #   B  y2 = ..; diff = ..; if norm >= tol: (y1 = y2; t += step_size; continue);  return ok           (4 / 5 statements)
    # B is A on numbers, but a NaN norm falls through to the success return (sf_cmp = CmpNotGe / CmpNotGt)
    form = None
    if ok_loop:
        lb = loop.body
        n_tail = None
        if len(lb) >= 4 and isinstance(lb[-2], ast.If) and ast.unparse(lb[-1]) == _RETURN_OK and isinstance(lb[-2].body[-1], ast.Continue):
            form, n_tail = "B", 3
        elif len(lb) >= 5:
            form, n_tail = "A", 4
        if form is not None:
            head = lb[: len(lb) - n_tail]
            if len(head) == 1:
                facts["succ"] = "SuccUnchecked"
            elif len(head) == 2 and ast.unparse(head[1]) == _SUCC_CHECK:
                facts["succ"] = "SuccChecked"  # the test of integ.successful() directly after the integration step
            else:
                form = None
    if form is not None:
        lb = loop.body
        s0 = lb[0]
        if form == "A":
            s1, s2, s3, s4 = lb[-4:]
            test_if, prev_assign, advance = s2, s3, s4
            shape_ok = shape_ok and (isinstance(s2, ast.If) and not s2.orelse and [ast.unparse(x) for x in s2.body] == [_RETURN_OK])
            cmp_map = {ast.Lt: "CmpLt", ast.LtE: "CmpLe"}
        else:
            s1, s2, _ret = lb[-3:]
            test_if = s2
            inner = s2.body
            if s2.orelse or len(inner) != 3:
                shape_ok = False
                prev_assign = advance = None
            else:
                prev_assign, advance = inner[0], inner[1]
            cmp_map = {ast.GtE: "CmpNotGe", ast.Gt: "CmpNotGt"}
        new_kind = prev_kind = None
        if isinstance(s0, ast.Assign) and ast.unparse(s0.targets[0]) == "y2" and len(s0.targets) == 1:
            v = ast.unparse(s0.value)
            new_kind = "copy" if v in _COPY_NEW else "alias" if v in _ALIAS_NEW else None
        if isinstance(prev_assign, ast.Assign) and ast.unparse(prev_assign.targets[0]) == "y1" and len(prev_assign.targets) == 1:
            v = ast.unparse(prev_assign.value)
            prev_kind = "ref" if v == "y2" else "copy" if v in _COPY_PREV else None
        if new_kind and prev_kind:
            facts["prev"] = "PrevCopy" if (new_kind == "copy" or prev_kind == "copy") else "PrevAlias"
        if ast.unparse(s1) == "diff = (y2 - y1) / y1 if rel_norm else y2 - y1":
            facts["rel"] = "RelDivPrev"
        if isinstance(test_if, ast.If):
            op = norm_test(test_if.test)
            if op is not None:
                facts["norm"] = "NormL2"
                facts["cmp"] = cmp_map.get(op, "CmpUnknown")
        if advance is None or ast.unparse(advance) != "t += step_size":
            shape_ok = False
    else:
        shape_ok = False
    if len(body) == len(_PRE) + 2 and ast.unparse(body[-1]) == "return Result(NoSteadyState())":
        facts["exhaust"] = "ExhaustFail"
    facts["shape_ok"] = shape_ok and _templates_ok(_TEMPLATES)
    facts["sim_ok"] = _templates_ok(_SIM_TEMPLATES) and _sim_methods_ok()
    facts["worker_ok"] = _templates_ok(_WORKER_TEMPLATES)
    # default tolerance of Simulator.simulate_to_steady_state (what the scan worker uses)
    try:
        st = ast.parse((common.REPO / "src/mxlpy/simulator.py").read_text())
        sfn = _find(st, "Simulator", "simulate_to_steady_state")
        dflt = sfn.args.defaults[0] if sfn is not None and len(sfn.args.defaults) == 1 else None
        if isinstance(dflt, ast.Constant) and type(dflt.value) is float and 0 < dflt.value < 1:
            facts["default_tol"] = dflt.value
    except (OSError, SyntaxError):
        pass
    return facts


def gen() -> dict[str, Any]:
    f = extract_facts()
    hf = extract_hist_facts()
    tol = Fraction(0) if f["default_tol"] is None else Fraction(*float(f["default_tol"]).as_integer_ratio())
    text = (
        "(* REGENERATED from src/mxlpy/integrators/int_scipy.py (Scipy.integrate_to_steady_state, reset),\n"
        "   simulator.py, scan.py, types.py, simulation.py by harness/c15.py; do not edit.\n"
        "   An unrecognised shape yields a *Unknown constructor / false, which breaks C15_facts_pinned. *)\n"
        "From Coq Require Import QArith ZArith NArith.\n"
        "From Steady Require Import SteadyLoop SteadyHist2.\n"
        f"Definition gen_ss_facts : ss_facts :=\n  mkSSFacts {int(f['step'])}%Z {int(f['max_steps'])}%N {f['cmp']} {f['norm']} {f['prev']} {f['rel']} {f['exhaust']} {f['succ']} "
        f"{common.cbool(bool(f['shape_ok']))}.\n"
        f"Definition gen_plumb_facts : plumb_facts :=\n  mkPlumb {common.cbool(bool(f['sim_ok']))} {common.cbool(bool(f['worker_ok']))} {cq(tol)}.\n"
        f"Definition gen_hist_facts : hist_facts :=\n  mkHistFacts {hf['handle']} {hf['label']} {common.cbool(bool(hf['ops_ok']))}.\n"
    )
    f = {**f, **{"hist_" + k: v for k, v in hf.items()}}
    common.write_if_changed(common.area_dir(AREA) / "GenSteadyFacts.v", text)
    return {k: (v if not isinstance(v, float) else repr(v)) for k, v in f.items()}


# ---------------------------------------------------------------------------------------
# networks: linear, mass action.  reactions: ("in", i, v) | ("out", i, k) | ("conv", i, j, k) | ("grow", i, k)
# ---------------------------------------------------------------------------------------


def build_model(net: dict):
    from mxlpy import Model

    m = Model()
    d = net["d"]
    # "var_order": the order in which the variables are ADDED to the model (= model.get_variable_names(), the order of
    # the integrator state); the names stay x<i>, so the order is not the alphabetical one when permuted
    for i in net.get("var_order") or range(d):
        m.add_variable(f"x{i}", float(net["y0_default"][i]))
    for r, rx in enumerate(net["reactions"]):
        kind = rx[0]
        if kind == "in":
            m.add_parameter(f"p{r}", float(rx[2]))
            m.add_reaction(f"r{r}", fn=const, args=[f"p{r}"], stoichiometry={f"x{rx[1]}": 1})
        elif kind == "out":
            m.add_parameter(f"p{r}", float(rx[2]))
            m.add_reaction(f"r{r}", fn=ma1, args=[f"x{rx[1]}", f"p{r}"], stoichiometry={f"x{rx[1]}": -1})
        elif kind == "conv":
            m.add_parameter(f"p{r}", float(rx[3]))
            m.add_reaction(f"r{r}", fn=ma1, args=[f"x{rx[1]}", f"p{r}"], stoichiometry={f"x{rx[1]}": -1, f"x{rx[2]}": 1})
        elif kind == "grow":
            m.add_parameter(f"p{r}", float(rx[2]))
            m.add_reaction(f"r{r}", fn=ma1, args=[f"x{rx[1]}", f"p{r}"], stoichiometry={f"x{rx[1]}": 1})
        else:
            raise ValueError(kind)
    return m


def linear_system(net: dict) -> tuple[list[list[Fraction]], list[Fraction]]:
    """dx/dt = A x + b with the exact rational values of the float rate constants."""
    d = net["d"]
    A = [[Fraction(0)] * d for _ in range(d)]
    b = [Fraction(0)] * d
    for rx in net["reactions"]:
        kind = rx[0]
        if kind == "in":
            b[rx[1]] += common.to_fraction(rx[2])
        elif kind == "out":
            A[rx[1]][rx[1]] -= common.to_fraction(rx[2])
        elif kind == "conv":
            k = common.to_fraction(rx[3])
            A[rx[1]][rx[1]] -= k
            A[rx[2]][rx[1]] += k
        elif kind == "grow":
            A[rx[1]][rx[1]] += common.to_fraction(rx[2])
    return A, b


def stoich_of(net: dict) -> list[dict[int, int]]:
    out = []
    for rx in net["reactions"]:
        if rx[0] in ("in", "grow"):
            out.append({rx[1]: 1})
        elif rx[0] == "out":
            out.append({rx[1]: -1})
        else:
            out.append({rx[1]: -1, rx[2]: 1})
    return out


def _r2k(r: float) -> float:
    return -math.log(r) / STEP


def gen_network(rng, tol: float, rel: bool) -> dict:
    """A random network with values scaled so that integration error is small against the tolerance."""
    kind = rng.choice(
        ["pool", "pool", "chain2", "chain2", "chain3", "rev", "branch", "decay", "slow", "exact",
         "accum1", "accum1", "accum_chain", "growth", "slowpool"]
    )
    if rel and kind == "decay":
        kind = "pool"
    scale = (10 ** rng.uniform(-2, 2)) if rel else tol * 10 ** rng.uniform(0.7, 2.8)
    if tol <= 0:
        scale = 10 ** rng.uniform(-3, 1)

    def rate():  # contraction factor per step between 0.02 and 0.9
        return _r2k(rng.choice([rng.uniform(0.02, 0.5), rng.uniform(0.02, 0.5), rng.uniform(0.5, 0.9)]))

    rx: list[tuple] = []
    has_ss = True
    if kind in ("pool", "slowpool", "slow"):
        d = 1
        k = rate() if kind == "pool" else _r2k(rng.uniform(0.9, 0.9999)) if kind == "slowpool" else 10 ** rng.uniform(-7, -5.5)
        rx = [("in", 0, scale * k * rng.uniform(0.2, 1)), ("out", 0, k)]
    elif kind == "exact":
        d = 1
        k = 2.0 ** -rng.randint(6, 9)
        ystar = float(rng.randint(1, 8)) * 2.0 ** rng.randint(-12, 2)
        rx = [("in", 0, ystar * k), ("out", 0, k)]
    elif kind == "decay":
        d = 1
        rx = [("out", 0, rate())]
    elif kind in ("chain2", "chain3"):
        d = 2 if kind == "chain2" else 3
        ks = [rate() for _ in range(d)]
        rx = [("in", 0, scale * min(ks) * rng.uniform(0.2, 1))]
        for i in range(d - 1):
            rx.append(("conv", i, i + 1, ks[i]))
        rx.append(("out", d - 1, ks[d - 1]))
    elif kind == "rev":
        d = 2
        kf, kb, ko = rate(), rate(), rate()
        rx = [("in", 0, scale * min(kf, ko) * rng.uniform(0.1, 0.5)), ("conv", 0, 1, kf), ("conv", 1, 0, kb), ("out", 1, ko)]
    elif kind == "branch":
        d = 3
        k1, k2, k3, k4 = rate(), rate(), rate(), rate()
        rx = [("in", 0, scale * min(k1, k2, k3, k4) * rng.uniform(0.2, 1)), ("conv", 0, 1, k1), ("conv", 0, 2, k2), ("out", 1, k3), ("out", 2, k4)]
    elif kind == "accum1":
        d = 1
        has_ss = False
        # per-step change from far above to below the tolerance
        per_step = (tol if tol > 0 else 1e-3) * 10 ** rng.uniform(-1.5, 3) if not rel else scale * 10 ** rng.uniform(-4, 1)
        rx = [("in", 0, per_step / STEP)]
    elif kind == "accum_chain":
        d = 2
        has_ss = False
        k = rate()
        per_step = (tol if tol > 0 else 1e-3) * 10 ** rng.uniform(0.5, 2.5) if not rel else scale * 10 ** rng.uniform(-3, 0)
        rx = [("in", 0, per_step / STEP), ("conv", 0, 1, k)]
    else:  # growth
        d = 1
        has_ss = False
        rx = [("grow", 0, 10 ** rng.uniform(-6, -2.8))]
    net = {"kind": kind, "d": d, "reactions": rx, "has_ss": has_ss}
    A, b = linear_system(net)
    # initial values
    y0 = []
    if has_ss and kind != "decay":
        ystar = solve_exact(A, [-x for x in b])
        for i in range(d):
            ys = float(ystar[i])
            c = rng.random()
            if kind == "exact":
                y0.append(ys if c < 0.7 else ys * 2.0)
            elif c < 0.12:
                y0.append(0.0)
            elif c < 0.2:
                y0.append(ys)
            else:
                y0.append(ys * 10 ** rng.uniform(-1, 1) if not rel else ys * rng.uniform(0.2, 3))
    else:
        for i in range(d):
            y0.append(0.0 if (rng.random() < 0.15 and kind != "growth" and kind != "decay") else scale * rng.uniform(0.1, 1))
    net["y0"] = y0
    net["user_y0"] = rng.random() < 0.5
    # default initial values of the model differ from the user-supplied ones when those are used
    net["y0_default"] = [v * 3 + 1 for v in y0] if net["user_y0"] else list(y0)
    return net


def solve_exact(A: list[list[Fraction]], rhs: list[Fraction]) -> list[Fraction]:
    n = len(A)
    M = [list(A[i]) + [rhs[i]] for i in range(n)]
    for c in range(n):
        p = next(r for r in range(c, n) if M[r][c] != 0)
        M[c], M[p] = M[p], M[c]
        pv = M[c][c]
        M[c] = [x / pv for x in M[c]]
        for r in range(n):
            if r != c and M[r][c] != 0:
                f = M[r][c]
                M[r] = [x - f * y for x, y in zip(M[r], M[c])]
    return [M[i][n] for i in range(n)]


# ---------------------------------------------------------------------------------------
# closed-form sampled trajectory (mpmath, independent of the implementation and of the Coq model)
# ---------------------------------------------------------------------------------------

QBITS = 32  # samples are rounded to 2^-32 of the largest value of their pool (error units are >= 5e-5 of it)


def closed_form_stepper(net: dict, step: int = STEP):
    import mpmath as mp

    mp.mp.dps = 50
    A, b = linear_system(net)
    d = net["d"]
    M = mp.zeros(d + 1, d + 1)
    for i in range(d):
        for j in range(d):
            M[i, j] = mp.mpf(A[i][j].numerator) / mp.mpf(A[i][j].denominator) * step
        M[i, d] = mp.mpf(b[i].numerator) / mp.mpf(b[i].denominator) * step
    E = mp.expm(M)
    z = mp.matrix([mp.mpf(v) for v in net["y0"]] + [1])
    return E, z


def trajectory(net: dict, tol: float, rel: bool, max_steps: int, step: int = STEP) -> dict:
    """Closed-form samples y(0..), the closed-form decision and its robustness against integration error.

    The samples handed to the Coq model are ("den", "rows"): integers z with sample = z / den_i, den_i a power of two."""
    import mpmath as mp

    E, z = closed_form_stepper(net, step)
    d = net["d"]
    mps = [[z[i] for i in range(d)]]
    fl = [[float(v) for v in net["y0"]]]
    run_max = [abs(v) for v in fl[0]]
    for _ in range(max_steps):
        z = E * z
        mps.append([z[i] for i in range(d)])
        fl.append([float(z[i]) for i in range(d)])
        run_max = [max(run_max[i], abs(fl[-1][i])) for i in range(d)]
        # stop early once the closed form is clearly below the threshold (cheap pre-check, decision re-done below)
        dn, _, nf = step_measure(fl[-2], fl[-1], rel, len(fl) - 2, run_max, net)
        if not nf and dn < tol * 0.5:
            break
    # extend by two samples so that a model that disagrees still has data to read
    for _ in range(2):
        z = E * z
        mps.append([z[i] for i in range(d)])
    # quantise: per pool, a power-of-two grid relative to its largest value
    maxall = [max(abs(float(r[i])) for r in mps) for i in range(d)]
    dens = []
    for i in range(d):
        e = QBITS - (math.frexp(maxall[i])[1] if maxall[i] > 0 else 0)
        dens.append(2 ** max(e, 0))
    rows = [[int(mp.nint(r[i] * dens[i])) for i in range(d)] for r in mps]
    # decisions are taken on the quantised samples (what the model sees), sample 0 being the exact y0
    qf = [[float(v) for v in net["y0"]]] + [[rows[n][i] / dens[i] for i in range(d)] for n in range(1, len(fl))]
    maxabs = [max(abs(r[i]) for r in qf) for i in range(d)]
    decision = None
    borderline = False
    for n in range(len(qf) - 1):
        dn, mg, nonfinite = step_measure(qf[n], qf[n + 1], rel, n, maxabs, net)
        if nonfinite == "border" or (not nonfinite and abs(dn - tol) <= mg):
            borderline = True
        if not nonfinite and dn < tol:
            decision = n
            break
    n_needed = (decision + 2) if decision is not None else len(qf)
    return {"den": dens, "rows": rows[: n_needed + 2], "decision": decision, "borderline": borderline, "maxabs": maxabs,
            "float": qf, "n_samples": min(len(rows), n_needed + 2)}


def err_units(maxabs: list[float], net: dict, m: float) -> list[float]:
    if net["kind"] == "exact" and all(a == b for a, b in zip(net["y0"], net.get("ystar_f", [None] * net["d"]))):
        return [0.0] * net["d"]  # started exactly at the steady state with dyadic values: derivative exactly 0
    return [m * (ERR_UNIT_RTOL * a + ERR_UNIT_ATOL) for a in maxabs]


def step_measure(y1: list[float], y2: list[float], rel: bool, n: int, maxabs: list[float], net: dict, m: float = M_BORDER):
    """(norm of the change, margin by which integration error can move it, non-finite flag)."""
    E = err_units(maxabs, net, m)
    E1 = [0.0] * len(E) if n == 0 else E  # the first 'previous state' is the exact initial value
    if not rel:
        dn = math.sqrt(sum((b - a) ** 2 for a, b in zip(y1, y2)))
        mg = math.sqrt(sum((e1 + e2) ** 2 for e1, e2 in zip(E1, E)))
        return dn, mg * 1.01 + 1e-300, False
    comps = []
    mgs = []
    for a, b, e1, e2 in zip(y1, y2, E1, E):
        if a == 0.0 and e1 == 0.0:
            return math.inf, 0.0, True  # exact zero denominator: inf/nan, never below the tolerance
        if abs(a) <= 10 * e1:
            return math.inf, 0.0, "border"
        q = (b - a) / a
        comps.append(q)
        mgs.append((e1 + e2) / (abs(a) - e1) + abs(q) * e1 / (abs(a) - e1))
    return math.sqrt(sum(c * c for c in comps)), math.sqrt(sum(g * g for g in mgs)) * 1.01 + 1e-300, False


# ---------------------------------------------------------------------------------------
# implementation driver
# ---------------------------------------------------------------------------------------


class _Timeout(Exception):
    pass


def _alarm(signum, frame):  # noqa: ANN001, ARG001
    raise _Timeout


def run_impl(net: dict, tol: float, rel: bool, with_worker: bool = False) -> dict:
    """-> {"kind": "Steady", "t": float, "y": [..], "fluxes": [..]} | {"kind": "NoSteady"} | {"kind": "OtherFailure:.."} | {"kind": "Err:..."}"""
    import numpy as np

    from mxlpy import Simulator

    signal.signal(signal.SIGALRM, _alarm)
    signal.setitimer(signal.ITIMER_REAL, 60.0)
    out: dict[str, Any]
    try:
        m = build_model(net)
        y0 = {f"x{i}": float(v) for i, v in enumerate(net["y0"])} if net["user_y0"] else None
        with c15_hist.OdeSpy() as spy, np.errstate(all="ignore"):
            res = Simulator(m, y0=y0).simulate_to_steady_state(tolerance=tol, rel_norm=rel).get_result()
        steps = spy.steps
        v = res.value
        if isinstance(v, Exception):
            # any exception wrapped in the Result is a failure value; only NoSteadyState is the modelled one
            out = ({"kind": "NoSteady"} if type(v).__name__ == "NoSteadyState"
                   else {"kind": "IntegFail"} if type(v).__name__ == "IntegrationFailure"
                   else {"kind": "OtherFailure:" + type(v).__name__})
        else:
            frames = v.raw_variables
            if len(frames) != 1 or frames[0].shape[0] != 1:
                out = {"kind": "Err:shape", "detail": str([f.shape for f in frames])}
            else:
                names = [f"x{i}" for i in range(net["d"])]
                fl = v.fluxes
                out = {
                    "kind": "Steady",
                    "t": float(frames[0].index[0]),
                    "y": [float(frames[0][nm].iloc[0]) for nm in names],
                    "fluxes": [float(fl[f"r{r}"].iloc[0]) for r in range(len(net["reactions"]))],
                }
        out["steps"] = steps
        if with_worker:
            from mxlpy.scan import _steady_state_worker

            m2 = build_model(net)
            with np.errstate(all="ignore"):
                sim = _steady_state_worker(m2, rel_norm=rel, integrator=None, y0=y0)
            row = sim.raw_variables[-1].iloc[-1, :].tolist()
            out["worker_nan"] = all(x != x for x in row)
            out["worker_row"] = [None if x != x else float(x) for x in row]
    except _Timeout:
        out = {"kind": "Err:Timeout"}
    except Exception as e:  # noqa: BLE001
        out = {"kind": "Err:" + type(e).__name__, "detail": str(e)[:200]}
    finally:
        signal.setitimer(signal.ITIMER_REAL, 0)
    return out


# ---------------------------------------------------------------------------------------
# independent oracle: the PROPERTY on the implementation's outcome
# ---------------------------------------------------------------------------------------


def stable_info(net: dict) -> dict | None:
    """y*, cond(V), rho = max r/(1-r), ||A|| for a network with a unique stable steady state (else None)."""
    import numpy as np

    A, b = linear_system(net)
    An = np.array([[float(x) for x in row] for row in A])
    if abs(np.linalg.det(An)) == 0.0:
        return None
    w, V = np.linalg.eig(An)
    if np.any(np.abs(w.imag) > 0) or np.any(w.real >= 0):
        return None
    r = np.exp(w.real * STEP)
    ystar = solve_exact(A, [-x for x in b])
    return {
        "ystar": [float(x) for x in ystar],
        "cond": float(np.linalg.cond(V)),
        "rho": float(np.max(r / (1 - r))),
        "rmax": float(np.max(r)),
        "normA": float(np.linalg.norm(An, 2)),
    }


def oracle(net: dict, tol: float, rel: bool, out: dict, tr: dict) -> tuple[str, str] | None:
    """None if the outcome satisfies the property; else (class, description) with class
    'violation' or 'finding:c15-relnorm-accumulation'."""
    if out["kind"].startswith("Err"):
        return "violation", f"steady-state simulation ended with {out['kind']} {out.get('detail', '')}"
    if out["kind"] in ("NoSteady", "IntegFail") or out["kind"].startswith("OtherFailure"):
        return None  # a failure value is never a state presented as steady
    d = net["d"]
    y = out["y"]
    t = out["t"]
    if not (t == t and 0 < t < 1e9) or len(y) != d or any(v != v for v in y):
        return "violation", f"reported steady state {y} at time {t} is not a finite state at a positive time"
    # closed-form state at the reported time and one sampling step (of the PROPERTY: 100) earlier
    y_prev, y_now = closed_form_at(net, max(t - STEP, 0.0)), closed_form_at(net, t)
    n = 0 if t <= STEP else 1  # n == 0: the previous state is the exact initial value
    smax = sampled_max(net, t)
    maxabs = [max(smax[i], abs(y_now[i]), abs(y_prev[i])) for i in range(d)]
    E = err_units(maxabs, net, M_ORACLE)
    Enorm = math.sqrt(sum(e * e for e in E))
    # reported fluxes must reproduce the reported state (exact stoichiometry)
    S = stoich_of(net)
    resid = [0.0] * d
    for r, st in enumerate(S):
        for i, c in st.items():
            resid[i] += c * out["fluxes"][r]
    rnorm = math.sqrt(sum(x * x for x in resid))
    info = stable_info(net)
    tol_eff = tol if not rel else tol * math.sqrt(sum(v * v for v in y_prev)) * 1.001
    if info is not None:
        dist = math.sqrt(sum((a - b) ** 2 for a, b in zip(y, info["ystar"])))
        kfac = info["cond"] * max(info["rho"], 1e-300)
        bound = kfac * (max(tol_eff, 0.0) + 2 * Enorm) + Enorm
        if dist > bound * 1.01 + 1e-300:
            return "violation", (
                f"reported steady state {y} at t={t} is {dist:.3g} away from the analytic steady state {info['ystar']}; "
                f"bound cond(V)*rho*(tol+slack)={bound:.3g} (tol={tol}, rel_norm={rel}, rho={info['rho']:.3g})"
            )
        if rnorm > info["normA"] * bound * 1.01 + 1e-300:
            return "violation", f"reported fluxes do not balance: |S v|={rnorm:.3g} > |A|*bound={info['normA'] * bound:.3g} at t={t}"
        return None
    # no steady state: presenting a state as steady is only acceptable if the state really changes by
    # less than the tolerance per step (the closed form decides, with the integration-error slack)
    dn, mg, nonfinite = step_measure(y_prev, y_now, rel, n, maxabs, net, M_ORACLE)
    really_below = (not nonfinite) and dn < tol + mg
    what = (
        f"network without steady state ({net['kind']}) reported steady at t={t}, state {y}; closed-form change over the "
        f"last step {'(relative) ' if rel else ''}{dn:.3g} vs tolerance {tol}; flux imbalance |S v|={rnorm:.3g}"
    )
    if rel:
        if really_below:
            return "finding:c15-relnorm-accumulation", what
        if nonfinite == "border":
            # a component of the closed form is smaller than the integration-error scale of its pool, so
            # the RELATIVE change the loop saw cannot be decided from the closed form either way: not
            # judged here (the exact loop/implementation comparison excludes such cases as borderline too)
            return "undecided:relative-change-on-error-scale", what
        return "violation", what
    if really_below:
        return None  # changes by less than the tolerance per step: steady on the requested scale
    return "violation", what


def sampled_max(net: dict, t: float) -> list[float]:
    """max |y_i| of the closed form sampled every STEP up to time t (the scale of the integration error)."""
    E, z = closed_form_stepper(net, STEP)
    d = net["d"]
    m = [abs(float(v)) for v in net["y0"]]
    for _ in range(min(int(t // STEP) + 1, 1001)):
        z = E * z
        m = [max(m[i], abs(float(z[i]))) for i in range(d)]
    return m


def closed_form_at(net: dict, t: float) -> list[float]:
    """Closed-form state at time t (mpmath, independent of the sampled trajectory)."""
    import mpmath as mp

    mp.mp.dps = 50
    A, b = linear_system(net)
    d = net["d"]
    M = mp.zeros(d + 1, d + 1)
    tt = mp.mpf(t)
    for i in range(d):
        for j in range(d):
            M[i, j] = mp.mpf(A[i][j].numerator) / mp.mpf(A[i][j].denominator) * tt
        M[i, d] = mp.mpf(b[i].numerator) / mp.mpf(b[i].denominator) * tt
    z = mp.expm(M) * mp.matrix([mp.mpf(v) for v in net["y0"]] + [1])
    return [float(z[i]) for i in range(d)]


# ---------------------------------------------------------------------------------------
# correspondence
# ---------------------------------------------------------------------------------------


def cvec(v) -> str:  # noqa: ANN001
    return clist(cq(common.to_fraction(x)) for x in v)


def coq_case(idx: int, net: dict, tol: float, rel: bool, tr: dict, out: dict, facts_step: int) -> str:
    if net["kind"] == "accum1":
        c = common.to_fraction(net["reactions"][0][2]) * facts_step
        traj = f"TrajLin {cvec(net['y0'])} {clist([cq(c)])}"
    else:
        traj = ("TrajScaled " + clist(f"{int(x)}%positive" for x in tr["den"]) + " "
                + clist(clist(common.cz(x) for x in row) for row in tr["rows"]))
    if out["kind"] == "Steady":
        obs = f"ObsSteady {cq(common.to_fraction(out['t']))}"
    elif out["kind"] == "NoSteady":
        obs = "ObsNoSteady"
    elif out["kind"] == "IntegFail":
        obs = "ObsIntegFail"
    else:
        obs = "ObsOther"
    row = "None" if "worker_nan" not in out else f"(Some {common.cbool(out['worker_nan'])})"
    return f"Definition case_{idx} : ccase := ({cq(common.to_fraction(tol))}, {common.cbool(rel)}, {cvec(net['y0'])}, {traj}, {obs}, {row}).\n"


def corr_file(defs: list[str], n: int) -> str:
    return (
        "From Coq Require Import QArith ZArith NArith.\nFrom MxlBase Require Import ListX.\n"
        "From Steady Require Import SteadyLoop GenSteadyFacts.\n"
        "Definition ccase := (Q * bool * vec * traj * ss_obs * option bool)%type.\n"
        + "".join(defs)
        + "Definition cases : list ccase := "
        + clist(f"case_{i}" for i in range(n))
        + ".\n"
        "Definition agrees (c : ccase) : bool :=\n"
        "  match c with (tol, rel, y0, tr, o, row) =>\n"
        "    obs_eqb (obs_of (ss_run gen_ss_facts tol rel y0 (traj_fun tr))) o\n"
        "    && match row with None => true\n"
        "       | Some nan => row_kind_eqb (steady_state_row gen_plumb_facts gen_ss_facts rel y0 (traj_fun tr)) nan end\n"
        "  end.\n"
        "Definition mismatches := filter_idx (fun c => negb (agrees c)) cases.\n"
        "Eval vm_compute in mismatches.\n"
    )


# ---------------------------------------------------------------------------------------
# known findings
# ---------------------------------------------------------------------------------------


def finding_net(w: dict) -> dict:
    return {
        "kind": "accum1", "d": 1, "reactions": [("in", 0, float(w["influx"]))], "has_ss": False,
        "y0": [float(w["y0"])], "user_y0": False, "y0_default": [float(w["y0"])],
    }


def replay_known(run: Run, max_steps: int) -> None:
    for f in common.load_known_findings("C15"):
        w = f.get("witness", {})
        if "law" in w:
            try:
                spec = {"law": w["law"], "k": float(w["k"]), "x0": float(w["x0"])}
                out = c15_hist.run_singular(spec, float(w["tolerance"]), bool(w["rel_norm"]))
                verdict = c15_hist.singular_oracle(spec, out)
                shown = {k: out[k] for k in out if k != "steps"}
                if verdict is not None and verdict[0] == "finding:" + f["id"]:
                    run.known(f["id"], f"{f['what_fails']} -- witness still reproduces: {spec}, tolerance={w['tolerance']}, rel_norm={w['rel_norm']} -> {shown}")
                elif verdict is not None:
                    run.violation(f"known-finding witness {f['id']} now fails differently: {verdict[1]}",
                                  {"kind": "singular", "spec": spec, "tol": float(w["tolerance"]), "rel": bool(w["rel_norm"])})
                else:
                    run.note(f"known finding {f['id']} no longer reproduces (outcome {out['kind']}); run tools/c15_switch.py repaired <commit>")
            except Exception as e:  # noqa: BLE001
                run.note(f"could not replay known finding {f.get('id')}: {type(e).__name__}: {e}")
            continue
        try:
            net = finding_net(w)
            tol, rel = float(w["tolerance"]), bool(w["rel_norm"])
            out = run_impl(net, tol, rel)
            tr = trajectory(net, tol, rel, max_steps)
            verdict = oracle(net, tol, rel, out, tr)
            if verdict is not None and verdict[0] == "finding:" + f["id"]:
                run.known(f["id"], f"{f['what_fails']} -- witness still reproduces: dx/dt={w['influx']}, x0={w['y0']}, tolerance={tol}, rel_norm={rel} -> { {k: out[k] for k in out if k != 'steps'} }")
            elif verdict is not None:
                run.violation(f"known-finding witness {f['id']} now fails differently: {verdict[1]}", {"kind": "case", "net": net, "tol": tol, "rel": rel})
            else:
                run.note(f"known finding {f['id']} no longer reproduces (outcome {out['kind']}); remove it from known_findings.d/C15.json")
        except Exception as e:  # noqa: BLE001
            run.note(f"could not replay known finding {f.get('id')}: {type(e).__name__}: {e}")


# ---------------------------------------------------------------------------------------
# the check
# ---------------------------------------------------------------------------------------

TOLS_ABS = [1e-1, 1e-2, 1e-3, 1e-4, 1e-5, 1e-6, 1e-6, 1e-6, 1e-7, 1e-8, 1e-9]
TOLS_REL = [1e-1, 3e-2, 1e-2, 3e-3, 1e-3, 1e-3, 1e-4, 1e-6, 1e-6]


def gen_case(rng) -> tuple[dict, float, bool]:
    rel = rng.random() < 0.4
    tol = rng.choice(TOLS_REL if rel else TOLS_ABS)
    if rng.random() < 0.03:
        tol = rng.choice([0.0, -1.0])
    net = gen_network(rng, tol, rel)
    if net["kind"] == "exact":
        A, b = linear_system(net)
        net["ystar_f"] = [float(x) for x in solve_exact(A, [-x for x in b])]
        if rng.random() < 0.3:
            tol = 0.0
    return net, tol, rel


def corpus_cases() -> list[tuple[dict, float, bool]]:
    """Fixed cases that run first on every run: the repaired alias defect and the finding's neighbourhood."""
    def acc(v, y0):
        return {"kind": "accum1", "d": 1, "reactions": [("in", 0, v)], "has_ss": False, "y0": [y0], "user_y0": False, "y0_default": [y0]}

    def pool(v, k, y0, user=False):
        return {"kind": "pool", "d": 1, "reactions": [("in", 0, v), ("out", 0, k)], "has_ss": True, "y0": [y0], "user_y0": user,
                "y0_default": [y0 * 3 + 1] if user else [y0]}

    return [
        (acc(1.0, 1.0), 1e-6, False),  # findings/c15_alias.py: dx/dt = 1 must fail
        (acc(1.0, 1.0), 1e-6, True),  # relative norm, default tolerance: fails (1/n never below 1e-6)
        (acc(0.25, 2.0), 1e-3, True),  # inside the guard of the partial theorem: must fail
        (pool(1e-4, 0.01, 3e-4), 1e-8, False),
        (pool(1e-4, 1e-4, 1.0 - 0.02), 1e-6, False),  # slow decay towards 1: the alias defect 'converged' at 0.98
        (pool(2e-5, 0.00693, 1e-3, True), 1e-6, False),
    ]


def check(run: Run) -> None:
    thorough = run.tier == "thorough"
    facts = gen()
    run.coverage["gen_facts"] = facts
    run.rule = (
        "linear mass-action networks (single pool, chains of 2-3, reversible pair, branch, pure decay, slow pools, starts exactly "
        "at the steady state, and networks WITHOUT steady state: constant influx without efflux, chain into a sink pool, "
        "exponential growth) x default/user-supplied initial values (incl. zeros) x tolerances 1e-1..1e-9, 0, -1 x absolute/"
        "relative norm; values are scaled with the tolerance so that LSODA's error (rtol 1e-6) cannot flip a decision. A case is "
        "non-trivial if the closed-form trajectory needs >= 2 loop steps or ends in failure; distinct by content. Cases whose "
        "decision is within 50 integration-error units of the threshold are excluded from the exact comparison (counted as borderline) "
        "but still judged by the oracle. HISTORIES: 2-3 operations simulate / simulate_time_course / simulate_to_steady_state on one "
        "Simulator (half of the networks without steady state; integration failures injected into some simulate steps), then "
        "get_result; non-trivial = at least two operations. SINGULAR: dx/dt = k x^2 and k/(1-x), whose solution stops existing before "
        "or during the search (the solver fails). NaN NORMS: relative norm on slowly relaxing pools/chains (contraction 0.1-0.7 per step, "
        "started far from the steady state) next to a pool that stays exactly 0 (0/0), and networks whose rate law (sqrt(1-x), "
        "arcsin(x)) leaves its domain while x accumulates without bound (NaN state, the solver still reports success): the "
        "criterion cannot be evaluated, the only acceptable outcomes are a failure value or a genuine steady state. PARAMETER "
        "SWEEPS: one Simulator, clear_results / update_parameter / simulate_to_steady_state().get_result() for three values of a "
        "rate constant, results read only AFTER the sweep: each must be the steady state of ITS parameter set with balancing "
        "fluxes. RECORDED RUNS: every search above whose binary64 norm decisions are not within 1e-9 of the tolerance is replayed "
        "through the Gallina loop over IEEE values (finite | inf | NaN) on the solver's own buffers and success flags. "
        "EXTENDED HISTORIES (own rng stream): stable networks, in 3 of 4 multi-pool cases with a user-supplied y0 dictionary "
        "whose keys are written in a PERMUTED order, and 1-5 operations simulate(dyadic end time) / simulate_to_steady_state / "
        "update_parameter (a rate constant or the influx times 1/4..8) / update_variables / clear_results on ONE Simulator, "
        "always ending with a search; the last row of get_result (public views, by variable name) must be the steady state of the "
        "network AS PARAMETERISED AT THE LAST SEARCH with balancing reported fluxes, and every frame (times incl. the time "
        "shift, column order, values) must equal the Gallina model hist2_named gen_hist_facts on the recorded integrator "
        "results; non-trivial = at least two operations or a permuted key order; first cases = the demos of seeded changes "
        "C15-7 / C15-9."
    )
    proofs_ok = run.check_proofs(AREA, PROPS)
    run.assumptions += [
        "Coq 8.16.1 kernel + vm_compute; loop/accumulation/alias/plumbing theorems are closed under the global context; "
        "integrator-failure, history and IEEE-loop (NaN/inf) theorems likewise closed; "
        "the norm/distance theorems use Coq.Reals (ClassicalDedekindReals.sig_forall_dec, sig_not_dec, "
        "FunctionalExtensionality.functional_extensionality_dep, Classical_Prop.classic)",
        "the ODE solver (scipy LSODA) is NOT modelled: the loop is proved over an abstract sampled trajectory; that the solver's "
        "samples follow the flow is validated only (closed-form comparison with margin)",
        "fact extractor harness/c15.py::extract_facts (fail-closed ast matcher; templates for reset, Simulator plumbing, scan worker)",
        "binary64 evaluation of norm/subtraction/division is modelled by exact rational arithmetic on finite values and by the IEEE "
        "rules for inf/NaN (SteadyNan.v: x/0, 0/0, inf-inf, NaN propagation, every comparison with NaN False); rounding, "
        "overflow/underflow of finite intermediates and the sign of zero are outside the model",
        "Simulation._compute_args / lazy flux evaluation is NOT modelled in Coq (property C10's area): that every collected "
        "steady-state result reports the fluxes of its own parameter set is validated by the sweep oracle only",
        "correspondence harness: mpmath closed form (50 digits, samples rounded to 2^-32 relative), literal printer, coqc output parser",
        "oracle constants: integration error per sample <= 320 * (1e-6*max|y_i| + 1e-12) (100 x worst observed)",
        "what each integrator call returns inside a history, and the buffers/success flags of scipy.integrate.ode.integrate, are "
        "inputs of the model (external behaviour) recorded by wrappers in harness/c15_hist.py (trusted glue); the history model has "
        "no update_variable/_time_shift, no protocols, no raising calls; the EXTENDED history model (SteadyHist2.v) adds "
        "update_parameter(s)/update_variable(s)/clear_results, the time shift and the column names; that a new integrator "
        "object restarts at its own time 0 from the overridden state, and what y0 becomes in update_variables, stay external",
        "fact extractor harness/c15.py::extract_hist_facts (handler shape HkSkipfirst | HkLaterOnly, column labels, structural "
        "pins of Simulator.__init__, _initialise_integrator, update_*, scale_*, clear_results)",
        "coq/steady/ExpectedFacts.v is a hand-edited switch (expected form of the integ.successful() test), kept consistent with "
        "known_findings.d/C15.json by tools/c15_switch.py",
    ]
    step = int(facts["step"]) or STEP
    max_steps = int(facts["max_steps"]) or 1000
    sim_steps = min(max(max_steps, 1), 1000)  # the closed form is sampled with the PROPERTY's budget

    rng = common.rng_for(run.seed, "c15")
    n_cases = 2600 if thorough else 400
    known_ids = {f.get("id") for f in common.load_known_findings("C15")}
    rec_defs: list[tuple[str, str]] = []  # (description, Coq text) of recorded runs
    max_rec = 1500 if thorough else 260
    max_rec_long = 12 if thorough else 3
    n_rec_long = 0
    max_long_lists = 60 if thorough else 14  # failing non-linear-accumulation cases need 1001 explicit samples
    cases = list(corpus_cases())
    while len(cases) < n_cases:
        cases.append(gen_case(rng))

    kinds: dict[str, int] = {}
    outcomes: dict[str, int] = {}
    stats = {"borderline_excluded": 0, "exact_compared": 0, "long_list_skipped": 0, "worker_rows": 0, "rel": 0, "user_y0": 0,
             "bounded_relaxation_success": 0, "slow_relaxation_success": 0}
    tol_hist: dict[str, int] = {}
    defs: list[tuple[int, str]] = []
    corr_index: list[int] = []
    n_viol = 0
    n_long = 0
    finding_hits = 0
    records = []
    dflt_tol = facts.get("default_tol")
    for ci, (net, tol, rel) in enumerate(cases):
        tr = trajectory(net, tol, rel, sim_steps, step)
        with_worker = dflt_tol is not None and repr(tol) == dflt_tol
        out = run_impl(net, tol, rel, with_worker=with_worker)
        steps = out.pop("steps", [])
        records.append((net, tol, rel, out))
        # (5) recorded run: the solver's own buffers + success flags through the Gallina loop
        if steps and not out["kind"].startswith(("Err", "OtherFailure")) and len(rec_defs) < max_rec:
            y0f = [float(v) for v in net["y0"]]
            if c15_hist.float_decisions_robust(y0f, steps, tol, rel):
                is_long = len(steps) > 60
                if not is_long or n_rec_long < max_rec_long:
                    n_rec_long += is_long
                    rec_defs.append((f"case #{ci} kind={net['kind']} reactions={net['reactions']} y0={net['y0']} tol={tol} rel_norm={rel} impl={out['kind']}",
                                     c15_hist.recorded_coq_case(0, y0f, steps, tol, rel, out["kind"], out.get("t"))))
            else:
                stats["recorded_float_borderline"] = stats.get("recorded_float_borderline", 0) + 1
        kinds[net["kind"]] = kinds.get(net["kind"], 0) + 1
        outcomes[out["kind"]] = outcomes.get(out["kind"], 0) + 1
        tol_hist[repr(tol)] = tol_hist.get(repr(tol), 0) + 1
        stats["rel"] += rel
        stats["user_y0"] += net["user_y0"]
        nontrivial = tr["decision"] is None or tr["decision"] >= 1
        run.count_case((net["reactions"], net["y0"], net["user_y0"], tol, rel), nontrivial=nontrivial)
        if ci in (6, 7, 8):
            run.sample({"net": {k: net[k] for k in ("kind", "reactions", "y0", "user_y0")}, "tol": tol, "rel_norm": rel,
                        "closed_form_decision_step": tr["decision"], "borderline": tr["borderline"], "impl": out})
        # oracle
        verdict = oracle(net, tol, rel, out, tr)
        if verdict is not None:
            cls, what = verdict
            if cls.startswith("finding:") and cls.split(":", 1)[1] in known_ids:
                finding_hits += 1
            elif cls.startswith("undecided:"):
                stats["oracle_undecided_border"] = stats.get("oracle_undecided_border", 0) + 1
            elif n_viol < 4:
                n_viol += 1
                run.violation(what, {"kind": "case", "net": net, "tol": tol, "rel": rel, "impl": out})
        if out["kind"] == "Steady":
            info = stable_info(net)
            if info is not None:
                stats["bounded_relaxation_success" if info["rmax"] <= 0.5 else "slow_relaxation_success"] += 1
        # correspondence (exact) only for robust decisions
        if tr["borderline"]:
            stats["borderline_excluded"] += 1
            continue
        long_list = net["kind"] != "accum1" and tr["n_samples"] > 400
        if long_list:
            if n_long >= max_long_lists:
                stats["long_list_skipped"] += 1
                continue
            n_long += 1
        stats["exact_compared"] += 1
        stats["worker_rows"] += "worker_nan" in out
        defs.append((ci, coq_case(len(defs), net, tol, rel, tr, out, step)))
        corr_index.append(ci)
    # ---- (4) histories of one Simulator
    hrng = common.rng_for(run.seed, "c15-hist")
    n_hist = 330 if thorough else 64
    hist_defs: list[tuple[str, str]] = []
    hstats = {"histories": 0, "final_failure": 0, "final_success": 0, "injected_failure": 0, "search_without_steady_state": 0,
              "search_after_simulation_without_steady_state": 0, "outside_model": 0}
    hshapes: dict[str, int] = {}
    for hi in range(n_hist):
        want_no_ss = hi % 2 == 0
        for _ in range(200):
            net, tol, rel = gen_case(hrng)
            if net["has_ss"] != want_no_ss and tol > 0:
                break
        if hi < 3:  # fixed first histories: the seeded-change shape on the accumulating corpus network
            net, tol, rel = corpus_cases()[0]
            hist = [[("sim", 10.0, 5, False), ("ss",)], [("tc", [1.0, 2.0, 3.0], False), ("ss",)],
                    [("sim", 10.0, 2, True), ("ss",)]][hi]
        else:
            hist = c15_hist.gen_history(hrng, net)
        tr = trajectory(net, tol, rel, sim_steps, step)
        h = c15_hist.run_history(net, hist, tol, rel)
        shape = "+".join(op[0] + ("!" if (op[0] != "ss" and op[-1]) else "") for op in hist)
        hshapes[shape] = hshapes.get(shape, 0) + 1
        hstats["histories"] += 1
        injected = "!" in shape
        no_conv = tr["decision"] is None and not tr["borderline"] and tol > 0
        hstats["injected_failure"] += injected
        hstats["search_without_steady_state"] += no_conv
        hstats["search_after_simulation_without_steady_state"] += no_conv and hist[0][0] != "ss" and not injected
        hstats["final_failure" if h.get("final") != "Success" else "final_success"] += 1
        run.count_case(("hist", net["reactions"], net["y0"], net["user_y0"], tol, rel, hist), nontrivial=len(hist) >= 2)
        if hi in (0, 5):
            run.sample({"history": hist, "net": {k: net[k] for k in ("kind", "reactions", "y0", "user_y0")}, "tol": tol, "rel_norm": rel,
                        "integrator_results": [{k: (r[k] if k not in ("time", "values") else r[k][-1]) for k in r} for r in h["ops"]],
                        "get_result": h.get("final"), "last_row": (h.get("rows") or [None])[-1]})
        verdict = c15_hist.history_oracle(net, hist, tol, rel, h, tr)
        if verdict is not None:
            cls, what = verdict
            if cls.startswith("finding:") and cls.split(":", 1)[1] in known_ids:
                finding_hits += 1
            elif cls.startswith("undecided:"):
                stats["oracle_undecided_border"] = stats.get("oracle_undecided_border", 0) + 1
            elif n_viol < 6:
                n_viol += 1
                run.violation(what, {"kind": "history", "net": net, "tol": tol, "rel": rel, "hist": hist})
        if not h["raised"]:
            text = c15_hist.history_coq_case(0, h)
            if text is None:
                hstats["outside_model"] += 1
            else:
                hist_defs.append((f"history {hist} on kind={net['kind']} reactions={net['reactions']} y0={net['y0']} user_y0={net['user_y0']} "
                                  f"tol={tol} rel_norm={rel}: get_result={h.get('final')}", text))

    # ---- (c) solutions that stop existing: the solver fails, the search must not report success
    srng = common.rng_for(run.seed, "c15-singular")
    n_sing = 40 if thorough else 10
    sstats = {"cases": 0, "reported_failure": 0, "reported_steady": 0, "solver_failed_steps": 0}
    for si in range(n_sing):
        spec = c15_hist.gen_singular(srng) if si else {"law": "quad", "k": 1.0, "x0": 1.0}
        rel = srng.random() < 0.4
        tol = srng.choice(TOLS_REL if rel else TOLS_ABS)
        if si == 0:
            rel, tol = False, 1e-6
        out = c15_hist.run_singular(spec, tol, rel)
        verdict = c15_hist.singular_oracle(spec, out)
        steps = out.pop("steps", [])
        sstats["cases"] += 1
        sstats["solver_failed_steps"] += sum(1 for _, ok in steps if not ok)
        sstats["reported_steady" if out["kind"] == "Steady" else "reported_failure"] += 1
        run.count_case(("singular", spec["law"], spec["k"], spec["x0"], tol, rel), nontrivial=True)
        if verdict is not None:
            cls, what = verdict
            if cls.startswith("finding:") and cls.split(":", 1)[1] in known_ids:
                finding_hits += 1
            elif n_viol < 6:
                n_viol += 1
                run.violation(what, {"kind": "singular", "spec": spec, "tol": tol, "rel": rel})
        if steps and not out["kind"].startswith("Err") and c15_hist.float_decisions_robust([spec["x0"]], steps, tol, rel):
            rec_defs.append((f"singular {spec} tol={tol} rel_norm={rel} impl={out['kind']}",
                             c15_hist.recorded_coq_case(0, [spec["x0"]], steps, tol, rel, out["kind"], out.get("t"))))
    # ---- (d) NaN norms: a criterion that cannot be evaluated is not convergence
    nrng = common.rng_for(run.seed, "c15-nan")
    n_nan = 60 if thorough else 14
    max_nan_long = 8 if thorough else 2
    n_nan_long = 0
    nstats = {"cases": 0, "empty_pool_rel": 0, "out_of_domain": 0, "reported_failure": 0, "reported_steady": 0,
              "steps_with_nan_norm": 0, "recorded_compared": 0}
    for ni in range(n_nan):
        if ni % 2 == 0:
            net = c15_hist.demo_emptypool() if ni == 0 else c15_hist.gen_emptypool(nrng)
            tol, rel = nrng.choice([1e-3, 1e-4, 1e-6, 1e-6]), True
            out = run_impl(net, tol, rel)
            steps = out.pop("steps", [])
            verdict = oracle(net, tol, rel, out, {})
            rep = {"kind": "case", "net": net, "tol": tol, "rel": rel, "impl": out}
            y0f = [float(v) for v in net["y0"]]
            desc = f"empty pool, relative norm: reactions={net['reactions']} y0={net['y0']} user_y0={net['user_y0']} tol={tol} impl={out['kind']}"
            nstats["empty_pool_rel"] += 1
            run.count_case(("nan-emptypool", net["reactions"], net["y0"], net["user_y0"], tol), nontrivial=True)
            is_long = True
        else:
            spec = c15_hist.gen_domain(nrng) if ni > 1 else {"law": "sqrt", "k_in": 0.05, "kd": 0.01, "x0": 0.0}
            rel = nrng.random() < 0.35
            tol = nrng.choice([1e-4, 1e-6] if rel else [1e-1, 1e-2, 1e-4, 1e-6, 1e-6, 1e-8])
            if ni == 1:
                rel, tol = False, 1e-6
            out = c15_hist.run_domain(spec, tol, rel)
            steps = out.pop("steps", [])
            verdict = c15_hist.domain_oracle(spec, tol, rel, out)
            rep = {"kind": "domain", "spec": spec, "tol": tol, "rel": rel}
            y0f = [float(spec["x0"]), 0.0]
            desc = f"rate law leaving its domain: {spec} tol={tol} rel_norm={rel} impl={out['kind']}"
            nstats["out_of_domain"] += 1
            run.count_case(("nan-domain", spec["law"], spec["k_in"], spec["kd"], spec["x0"], tol, rel), nontrivial=True)
            is_long = False
        nstats["cases"] += 1
        nstats["reported_steady" if out["kind"] == "Steady" else "reported_failure"] += 1
        prev = y0f
        for yv, _ok in steps:
            comps = [((b - a) / a if a != 0.0 else (math.nan if b - a == 0.0 or b != b else math.inf)) if rel else b - a for a, b in zip(prev, yv)]
            nstats["steps_with_nan_norm"] += any(c != c for c in comps)
            prev = yv
        if ni in (0, 1):
            run.sample({"nan_stage": desc, "first_buffers": steps[:3], "impl": out})
        if verdict is not None:
            cls, what = verdict
            if cls.startswith("finding:") and cls.split(":", 1)[1] in known_ids:
                finding_hits += 1
            elif cls.startswith("undecided:"):
                stats["oracle_undecided_border"] = stats.get("oracle_undecided_border", 0) + 1
            elif n_viol < 8:
                n_viol += 1
                run.violation(what, rep)
        if steps and not out["kind"].startswith(("Err", "OtherFailure")) and c15_hist.float_decisions_robust(y0f, steps, tol, rel):
            if not is_long or len(steps) <= 60 or n_nan_long < max_nan_long:
                n_nan_long += is_long and len(steps) > 60
                nstats["recorded_compared"] += 1
                rec_defs.append((desc, c15_hist.recorded_coq_case(0, y0f, steps, tol, rel, out["kind"], out.get("t"))))

    # ---- (e) parameter sweeps on ONE Simulator: every collected result reports ITS OWN steady state and fluxes
    wrng = common.rng_for(run.seed, "c15-sweep")
    n_sweep = 30 if thorough else 6
    wstats = {"sweeps": 0, "results": 0, "results_steady": 0}
    for wi in range(n_sweep):
        if wi == 0:  # seeded change C15-6, demo: -> x -> y ->, k1 in (0.25, 1, 4), user-supplied initial values
            net = {"kind": "chain2", "d": 2, "reactions": [("in", 0, 1.0), ("conv", 0, 1, 1.0), ("out", 1, 0.5)], "has_ss": True,
                   "y0": [2.0, 3.0], "user_y0": True, "y0_default": [0.0, 0.0]}
            tol, rel, r_idx, values = 1e-8, False, 1, [0.25, 1.0, 4.0]
        else:
            for _ in range(400):
                net, tol, rel = gen_case(wrng)
                if net["has_ss"] and net["kind"] in ("pool", "chain2", "chain3", "rev", "branch") and tol > 0 and not rel:
                    break
            cands = [r for r, rx in enumerate(net["reactions"]) if rx[0] in ("out", "conv")]
            r_idx = wrng.choice(cands)
            k = float(net["reactions"][r_idx][-1])
            values = [k * f for f in wrng.sample([0.25, 0.5, 1.0, 2.0, 4.0], 3)]
        sw = c15_hist.run_sweep(net, r_idx, values, tol, rel)
        wstats["sweeps"] += 1
        wstats["results"] += len(sw["results"])
        wstats["results_steady"] += sum(1 for r in sw["results"] if r["kind"] == "Steady")
        run.count_case(("sweep", net["reactions"], net["y0"], net["user_y0"], tol, rel, r_idx, tuple(values)), nontrivial=True)
        if wi == 0:
            run.sample({"sweep": {"parameter": f"p{r_idx}", "values": values}, "net": {k2: net[k2] for k2 in ("kind", "reactions", "y0", "user_y0")},
                        "tol": tol, "results_read_after_the_sweep": sw["results"]})
        verdict = c15_hist.sweep_oracle(net, r_idx, values, tol, rel, sw)
        if verdict is not None:
            cls, what = verdict
            if cls.startswith("finding:") and cls.split(":", 1)[1] in known_ids:
                finding_hits += 1
            elif n_viol < 10:
                n_viol += 1
                run.violation(what, {"kind": "sweep", "net": net, "tol": tol, "rel": rel, "r_idx": r_idx, "values": values})
    # ---- (f) extended histories: model changes BETWEEN runs on one Simulator, y0 written in any key order
    xrng = common.rng_for(run.seed, "c15-close")
    ext_cases = list(c15_close.fixed_histories())
    n_ext = len(ext_cases) + (300 if thorough else 48)
    while len(ext_cases) < n_ext:
        ext_cases.append(c15_close.gen_case2(xrng, gen_case))
    ext_defs: list[tuple[str, str]] = []
    xstats = {"histories": 0, "final_success": 0, "final_failure": 0, "permuted_y0_keys": 0, "parameter_change_between_runs": 0,
              "variable_override_between_runs": 0, "cleared_between_runs": 0, "variables_added_in_non_alphabetical_order": 0, "last_search_not_later_than_stored": 0,
              "outside_model": 0}
    xshapes: dict[str, int] = {}
    for xi, (net, tol, rel, hist) in enumerate(ext_cases):
        h = c15_close.run_history2(net, hist, tol, rel)
        shape = "+".join(op[0] for op in hist)
        xshapes[shape] = xshapes.get(shape, 0) + 1
        xstats["histories"] += 1
        xstats["final_success" if h.get("final") == "Success" else "final_failure"] += 1
        permuted = bool(net["user_y0"] and c15_close.y0_order(net) != c15_close.var_order(net))
        xstats["permuted_y0_keys"] += permuted
        xstats["variables_added_in_non_alphabetical_order"] += c15_close.var_order(net) != list(range(net["d"]))
        xstats["parameter_change_between_runs"] += any(op[0] == "par" for op in hist[1:])
        xstats["variable_override_between_runs"] += any(op[0] == "var" for op in hist[1:])
        xstats["cleared_between_runs"] += any(op[0] == "clear" for op in hist)
        fr = h.get("frames") or []
        if len(fr) >= 2 and fr[-1]["rows"] and fr[-2]["rows"] and fr[-1]["rows"][-1][0] <= fr[-2]["rows"][-1][0]:
            xstats["last_search_not_later_than_stored"] += 1
        run.count_case(("hist2", net["reactions"], net["y0"], net["user_y0"], tuple(c15_close.y0_order(net)),
                        tuple(c15_close.var_order(net)), tol, rel, hist),
                       nontrivial=len(hist) >= 2 or permuted)
        if xi in (0, 4):
            run.sample({"extended_history": hist, "net": {k: net[k] for k in ("kind", "reactions", "y0", "user_y0")},
                        "y0_argument": c15_close.user_y0(net), "tol": tol, "rel_norm": rel, "get_result": h.get("final"),
                        "last_row_by_name": h.get("last"), "frames": [f["rows"][-1:] for f in fr]})
        verdict = c15_close.history2_oracle(net, hist, tol, rel, h)
        if verdict is not None:
            cls, what = verdict
            if cls.startswith("finding:") and cls.split(":", 1)[1] in known_ids:
                finding_hits += 1
            elif cls.startswith("undecided:"):
                stats["oracle_undecided_border"] = stats.get("oracle_undecided_border", 0) + 1
            elif n_viol < 14:
                n_viol += 1
                run.violation(what, {"kind": "history2", "net": net, "tol": tol, "rel": rel, "hist": hist})
        text = c15_close.history2_coq_case(0, net, h)
        if text is None:
            xstats["outside_model"] += 1
        else:
            ext_defs.append((f"extended history {hist} on kind={net['kind']} reactions={net['reactions']} y0={c15_close.user_y0(net) or net['y0']} "
                             f"tol={tol} rel_norm={rel}: get_result={h.get('final')}", text))
    stats["extended_histories_compared"] = len(ext_defs)
    stats["recorded_runs_compared"] = len(rec_defs)
    stats["histories_compared"] = len(hist_defs)

    run.coverage["input_distribution"] = {
        "history_stage": {**hstats, "shapes": hshapes}, "singular_stage": sstats, "nan_norm_stage": nstats, "sweep_stage": wstats,
        "extended_history_stage": {**xstats, "shapes": xshapes},
        "network_kinds": kinds, "impl_outcomes": outcomes, "tolerances": tol_hist, **stats,
        "known_finding_family_hits": finding_hits,
    }

    # correspondence inside Coq; long trajectories make big files: pack by size
    files: dict[str, str] = {}
    shard_cases: dict[str, list[int]] = {}
    cur: list[tuple[int, str]] = []
    cur_size = 0

    def flush() -> None:
        nonlocal cur, cur_size
        if cur:
            name = f"c15_{len(files):04d}"
            renum = []
            for j, (_ci, text) in enumerate(cur):
                renum.append("Definition case_%d " % j + text.split(" ", 2)[2])
            files[name] = corr_file(renum, len(cur))
            shard_cases[name] = [ci for ci, _ in cur]
        cur, cur_size = [], 0

    for ci, text in defs:
        cur.append((ci, text))
        cur_size += len(text)
        if len(cur) >= 120 or cur_size > 120_000:
            flush()
    flush()
    extra_desc: dict[str, list[str]] = {}

    def pack(prefix: str, items: list[tuple[str, str]], tag: str, mk) -> None:  # noqa: ANN001
        chunk: list[tuple[str, str]] = []
        size = 0

        def emit() -> None:
            nonlocal chunk, size
            if chunk:
                name = f"{prefix}_{len(extra_desc):04d}"
                files[name] = mk(["Definition %s_%d " % (tag, j) + text.split(" ", 2)[2] for j, (_d, text) in enumerate(chunk)])
                extra_desc[name] = [d for d, _ in chunk]
            chunk, size = [], 0

        for d, text in items:
            chunk.append((d, text))
            size += len(text)
            if len(chunk) >= 100 or size > 150_000:
                emit()
        emit()

    pack("c15_hist", hist_defs, "hcase", c15_hist.history_corr_file)
    pack("c15_rec", rec_defs, "rcase", c15_hist.recorded_corr_file)
    pack("c15_ext", ext_defs, "h2case", c15_close.history2_corr_file)
    res = common.coq_eval_many(AREA, files, timeout_s=900)
    mism = 0
    for name in sorted(files):
        ok, outp = res[name]
        lists = common.parse_eval_list(outp) if ok else None
        if not ok or not lists:
            run.broken_correspondence.append(f"correspondence shard {name} did not evaluate: {outp[-300:]}")
            continue
        if name in extra_desc:
            for j in lists[-1]:
                mism += 1
                if len(run.broken_correspondence) < 5:
                    what = ("history model (hist_result) and Simulator.get_result disagree" if name.startswith("c15_hist") else
                            "extended history model (hist2_named gen_hist_facts: rows, time shift, column names) and Simulator.get_result "
                            "disagree" if name.startswith("c15_ext") else
                            "loop model (ss_run_s) on the solver's recorded buffers/success flags and the implementation disagree")
                    run.broken_correspondence.append(f"{what}: {extra_desc[name][j]}")
            continue
        for j in lists[-1]:
            mism += 1
            ci = shard_cases[name][j]
            net, tol, rel, out = records[ci]
            if len(run.broken_correspondence) < 5:
                run.broken_correspondence.append(
                    f"loop model and implementation disagree on case #{ci}: kind={net['kind']} reactions={net['reactions']} y0={net['y0']} "
                    f"user_y0={net['user_y0']} tol={tol} rel_norm={rel} impl={ {k: out[k] for k in out if k != 'fluxes'} }"
                )
    run.coverage["traces_validated_against_impl"] = stats["exact_compared"] + len(hist_defs) + len(rec_defs) + len(ext_defs) - mism
    run.coverage["correspondence_mismatches"] = mism

    # scan.steady_state rows (NaN for failures) through the public API
    scan_bad = scan_rows_check(run)
    run.coverage["scan_rows_checked"] = scan_bad[1]

    replay_known(run, sim_steps)
    if step != STEP:
        run.note(f"extracted step_size {step} differs from the sampling step {STEP} the property is judged with")
    if not proofs_ok:
        run.note("proof obligations broken; the generated networks were judged with the oracle to find a concrete failing input")


def scan_rows_check(run: Run) -> tuple[int, int]:
    """scan.steady_state: a parameter row without steady state must come back as NaN, the others as the analytic state."""
    import numpy as np
    import pandas as pd

    from mxlpy import scan

    bad = 0
    n = 0
    try:
        net = {"kind": "pool", "d": 1, "reactions": [("in", 0, 2e-5), ("out", 0, 0.02)], "has_ss": True, "y0": [1e-4], "user_y0": False, "y0_default": [1e-4]}
        m = build_model(net)
        ks = [0.0, 0.05, 0.02, 0.0, 0.01]
        with np.errstate(all="ignore"):
            r = scan.steady_state(m, to_scan=pd.DataFrame({"p1": ks}), parallel=False)
        vals = r.variables["x0"].tolist()
        for k, v in zip(ks, vals):
            n += 1
            run.count_case(("scan", k))
            if k == 0.0:
                ok = v != v
                exp = "NaN (no steady state: influx without efflux)"
            else:
                ok = v == v and abs(v - 2e-5 / k) <= 1e-6 * 4 + 320 * (1e-6 * 1e-3 + 1e-12)
                exp = f"{2e-5 / k} within the default tolerance"
            if not ok:
                bad += 1
                run.violation(f"scan.steady_state row k_out={k}: got {v}, expected {exp}", {"kind": "scan", "ks": ks, "got": vals})
    except Exception as e:  # noqa: BLE001
        run.broken_correspondence.append(f"scan.steady_state check crashed: {type(e).__name__}: {e}")
    return bad, n


def replay(rep: dict) -> int:
    r = rep.get("replay", {})
    if r.get("kind") == "case":
        common.quiet_impl_logging()
        net = r["net"]
        net["reactions"] = [tuple(x) for x in net["reactions"]]
        tol, rel = float(r["tol"]), bool(r["rel"])
        out = run_impl(net, tol, rel)
        tr = trajectory(net, tol, rel, 1000)
        verdict = oracle(net, tol, rel, out, tr)
        print("implementation:", out)
        print("closed-form decision step:", tr["decision"], "borderline:", tr["borderline"])
        print("oracle:", verdict or "property holds on this input")
        return 1 if (verdict is not None and verdict[0] == "violation") else 0
    if r.get("kind") == "history":
        common.quiet_impl_logging()
        net = r["net"]
        net["reactions"] = [tuple(x) for x in net["reactions"]]
        tol, rel = float(r["tol"]), bool(r["rel"])
        hist = [tuple(op) for op in r["hist"]]
        h = c15_hist.run_history(net, hist, tol, rel)
        tr = trajectory(net, tol, rel, 1000)
        verdict = c15_hist.history_oracle(net, hist, tol, rel, h, tr)
        print("history:", hist)
        print("integrator results per call:", [{k: (x[k] if k not in ("time", "values") else x[k][-1]) for k in x} for x in h["ops"]])
        print("get_result:", h.get("final"), "last row:", (h.get("rows") or [None])[-1], "raised:", h["raised"])
        print("closed-form decision step of the search:", tr["decision"], "borderline:", tr["borderline"])
        print("oracle:", verdict or "property holds on this history")
        return 1 if (verdict is not None and verdict[0] == "violation") else 0
    if r.get("kind") == "history2":
        common.quiet_impl_logging()
        net = r["net"]
        net["reactions"] = [tuple(x) for x in net["reactions"]]
        tol, rel = float(r["tol"]), bool(r["rel"])
        hist = [tuple(({int(k): v for k, v in x.items()} if isinstance(x, dict) else x) for x in op) for op in r["hist"]]
        h = c15_close.run_history2(net, hist, tol, rel)
        verdict = c15_close.history2_oracle(net, hist, tol, rel, h)
        print("history:", hist, " y0 argument:", c15_close.user_y0(net))
        print("integrator results per call:", [{k: (x[k] if k not in ("time", "values") else x[k][-1]) for k in x} for x in h["ops"]])
        print("get_result:", h.get("final"), "last row by name:", h.get("last"), "raised:", h["raised"])
        print("last rows of the stored frames:", [(f["cols"], f["rows"][-1:]) for f in (h.get("frames") or [])])
        print("oracle:", verdict or "property holds on this history")
        return 1 if (verdict is not None and verdict[0] == "violation") else 0
    if r.get("kind") == "singular":
        common.quiet_impl_logging()
        spec = r["spec"]
        out = c15_hist.run_singular(spec, float(r["tol"]), bool(r["rel"]))
        verdict = c15_hist.singular_oracle(spec, out)
        steps = out.pop("steps", [])
        print("implementation:", out)
        print("solver steps (state, successful):", steps[:14])
        print("oracle:", verdict or "property holds on this input")
        known = {f.get("id") for f in common.load_known_findings("C15")}
        if verdict is None:
            return 0
        return 0 if (verdict[0].startswith("finding:") and verdict[0].split(":", 1)[1] in known) else 1
    if r.get("kind") == "domain":
        common.quiet_impl_logging()
        spec = r["spec"]
        tol, rel = float(r["tol"]), bool(r["rel"])
        out = c15_hist.run_domain(spec, tol, rel)
        steps = out.pop("steps", [])
        verdict = c15_hist.domain_oracle(spec, tol, rel, out)
        print("implementation:", out)
        print("solver buffers (state, successful):", steps[:6])
        print("oracle:", verdict or "property holds on this input")
        return 1 if verdict is not None else 0
    if r.get("kind") == "sweep":
        common.quiet_impl_logging()
        net = r["net"]
        net["reactions"] = [tuple(x) for x in net["reactions"]]
        tol, rel, r_idx, values = float(r["tol"]), bool(r["rel"]), int(r["r_idx"]), [float(v) for v in r["values"]]
        sw = c15_hist.run_sweep(net, r_idx, values, tol, rel)
        verdict = c15_hist.sweep_oracle(net, r_idx, values, tol, rel, sw)
        for v, res in zip(values, sw["results"]):
            print(f"p{r_idx}={v}:", res, "rate laws at the reported state:",
                  c15_hist.expected_fluxes(c15_hist.net_with(net, r_idx, v), res.get("y")))
        print("raised:", sw["raised"])
        print("oracle:", verdict or "property holds on this sweep")
        return 1 if (verdict is not None and verdict[0] == "violation") else 0
    if r.get("kind") == "scan":
        class _R:  # minimal Run stand-in
            def __init__(self):
                self.v = []
                self.broken_correspondence = []

            def count_case(self, *a, **k):
                pass

            def violation(self, what, rep):
                self.v.append(what)
                print(what)

        rr = _R()
        bad, _ = scan_rows_check(rr)  # type: ignore[arg-type]
        return 1 if bad or rr.broken_correspondence else 0
    print("nothing to replay:", rep.get("what"))
    return 1
