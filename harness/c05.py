"""C05 -- isotopomer expansion preserves base structure, totals and dynamics.

Tie to the source:
  (1) facts regenerated from src/mxlpy/label_map.py into coq/label/GenLabelFacts.v (reading direction
      of the map, external-label character, short-map test, dict-based argument renaming, shapes of
      the helpers and of build_model) -- PropsC05.v pins them;
  (2) correspondence: `build_iso` (coq/label/Iso.v) is evaluated inside Coq on the same base networks /
      label counts / maps / initial labels the real `LabelMapper.build_model` ran on and must build
      the SAME model (parameters, initial conditions, derived quantities, reactions with names,
      arguments and stoichiometries, in order) or fail with the same error class; the model's
      right-hand side over Q must equal `get_right_hand_side` of the built model at integer states;
  (3) an independent oracle (string/Fraction level, shares nothing with the Coq model) decides the
      PROPERTY on what the implementation built: one reaction per substrate pattern, collapse of every
      stoichiometry to the base one, product position i carries substrate position map[i] (external
      positions labelled), short maps rejected, totals and label placement of the initial amounts,
      summed isotopomer derivatives == base derivative at the totals for mass-action networks.
"""

from __future__ import annotations

import itertools
from fractions import Fraction
from typing import Any

from harness import c05_label as L
from harness import common
from harness.common import Run

AREA = "label"
PROPS = "PropsC05.v"
PROP = "C05"


def gen() -> dict[str, str]:
    return L.gen()


# ---------------------------------------------------------------------------------------
# cases
# ---------------------------------------------------------------------------------------


def gen_case(rng) -> dict:
    base = L.gen_base(rng)
    lv = L.gen_labels(rng, base)
    maps: dict[str, list[int]] = {}
    kinds = []
    wellformed = rng.random() < 0.6  # most cases are fully valid so that the dynamics are judged often
    for name, _fk, _args, st in base["rxns"]:
        tsl, tpl = L.label_totals(lv, st)
        touches = any(lv.get(c, 0) > 0 for c in st)
        if not touches and rng.random() < 0.6:
            continue
        if touches and rng.random() < (0.03 if wellformed else 0.15):
            continue  # unmapped reaction on a labelled compound (malformed stream)
        m, k = L.gen_map(rng, tsl, tpl, rng.choice(["perm", "perm", "id", "dup"]) if wellformed else None)
        maps[name] = m
        kinds.append(k)
    if rng.random() < 0.05:
        maps["v99"] = [0]  # map for a reaction that does not exist (ignored by the mapper)
    init: dict[str, Any] | None = None
    if rng.random() < 0.7:
        init = {}
        for c, n in lv.items():
            if rng.random() < 0.5:
                continue
            r = rng.random()
            if n == 0:
                if r < 0.5:
                    init[c] = [] if r < 0.25 else 0
                continue
            if r < 0.4:
                init[c] = rng.randrange(n)
            elif r < 0.8:
                init[c] = sorted(rng.sample(range(n), rng.randint(0, n)))
            elif r < 0.9:
                init[c] = n + rng.randint(0, 1)  # position beyond the compound (ignored by the mapper)
            else:
                init[c] = [rng.randrange(n), -1]
        if rng.random() < 0.1:
            unl = [c for c in base["vars"] if c not in lv]
            if unl:
                init[unl[0]] = 0  # initial label for an unlabelled compound (ignored)
    return {"base": base, "lv": lv, "maps": maps, "init": init, "map_kinds": kinds}


# minimised witnesses of repaired defects: they run first on every run (old behaviour back => VIOLATION with this replay)
REGRESSION_CASES = [
    # c05-zero-label-initial (fixes/C05-zero-label-initial.diff): amount landed in the stray variable 'c1__'
    {"base": {"params": {"p20": 1}, "dpars": [], "vars": {"c1": 4}, "dvars": [], "rxns": []},
     "lv": {"c1": 0}, "maps": {}, "init": {"c1": []}, "map_kinds": ["regression"]},
    {"base": {"params": {"p20": 1}, "dpars": [], "vars": {"c1": 4, "c2": 1}, "dvars": [], "rxns": [("v40", "FProd", ["c1", "p20"], {"c1": -1, "c2": 1})]},
     "lv": {"c1": 0, "c2": 1}, "maps": {"v40": [0]}, "init": {"c1": 0, "c2": 0}, "map_kinds": ["regression"]},
    # witnesses of c05-homodimer / c05-labelled-modifier (dict form of the renaming block; repaired by fixes/C05-homodimer.diff):
    # recorded findings while the tree has the dict form, ordinary judged cases afterwards
    {"base": {"params": {"p20": 1}, "dpars": [], "vars": {"c1": 4, "c2": 0}, "dvars": [], "rxns": [("v40", "FProd", ["c1", "c1", "p20"], {"c1": -2, "c2": 1})]},
     "lv": {"c1": 1, "c2": 2}, "maps": {"v40": [0, 1]}, "init": None, "map_kinds": ["regression"],
     "states": [{"c1__0": 3, "c1__1": 1, "c2__00": 0, "c2__01": 0, "c2__10": 0, "c2__11": 0}]},
    {"base": {"params": {"p20": 1}, "dpars": [], "vars": {"c1": 2, "c2": 0, "c3": 3}, "dvars": [], "rxns": [("v40", "FProd", ["c1", "c3", "p20"], {"c1": -1, "c2": 1})]},
     "lv": {"c1": 1, "c2": 1, "c3": 1}, "maps": {"v40": [0]}, "init": None, "map_kinds": ["regression"],
     "states": [{"c1__0": 1, "c1__1": 1, "c2__0": 0, "c2__1": 0, "c3__0": 2, "c3__1": 1}]},
    # corpus: reversible mass-action laws written as one reaction (the rate takes its own product), balanced sides and
    # permutation maps -- in -> A <-> B, E + B <-> C (3-cycle), C -> out; and a merge declared in non-alphabetical order
    {"base": {"params": {"p20": 1, "p21": 2, "p22": 3}, "dpars": [], "vars": {"c1": 1, "c2": 2, "c3": 1, "c4": 3}, "dvars": [],
              "rxns": [("v40", "FProd", ["p20"], {"c1": 1}), ("v41", L.REV1, ["c1", "c2", "p21", "p20"], {"c1": -1, "c2": 1}),
                       ("v42", L.REV2, ["c3", "c2", "c4", "p22", "p21"], {"c3": -1, "c2": -1, "c4": 1}), ("v43", "FProd", ["c4", "p20"], {"c4": -1})]},
     "lv": {"c1": 2, "c2": 2, "c3": 1, "c4": 3}, "maps": {"v40": [0, 1], "v41": [1, 0], "v42": [2, 0, 1], "v43": [0, 1, 2]},
     "init": {"c1": [0]}, "map_kinds": ["corpus-reversible"]},
    {"base": {"params": {"p20": 2, "p21": 1}, "dpars": [], "vars": {"c1": 2, "c2": 1, "c3": 1}, "dvars": [],
              "rxns": [("v40", L.REV1, ["c2", "c3", "c1", "p20", "p21"], {"c3": 1, "c2": -1, "c1": 1})]},
     "lv": {"c1": 1, "c2": 2, "c3": 1}, "maps": {"v40": [1, 0]}, "init": None, "map_kinds": ["corpus-reversible"]},
]


def gen_rev_case(rng) -> dict:
    """Networks around reversible mass-action reactions (one reaction, rate kf*S.. - kr*P..) with matching numbers of label
    positions on both sides and permutation maps (the class in which the dynamics clause holds), sometimes a duplicating map
    or unequal sides (recorded finding c05-reversible-unbalanced)."""
    shape = rng.choice(["11", "11", "21", "12", "22"])
    ns, np_ = int(shape[0]), int(shape[1])
    ids = rng.sample(range(1, 9), ns + np_ + 1)
    cp = [f"c{i}" for i in ids]
    subs, prods, by = cp[:ns], cp[ns:ns + np_], cp[-1]
    lv: dict[str, int] = {}
    total = rng.choice([1, 2, 2, 3, 3])
    for side in (subs, prods):  # split `total` positions over the compounds of the side
        cuts = sorted(rng.randint(0, total) for _ in range(len(side) - 1))
        parts = [b - a for a, b in zip([0, *cuts], [*cuts, total])]
        for c, n in zip(side, parts):
            if n > 0 or rng.random() < 0.3:
                lv[c] = n
    unbalanced = rng.random() < 0.12
    if unbalanced:
        lv[rng.choice(prods)] = lv.get(prods[0], 0) + 1
    if rng.random() < 0.5:
        lv[by] = rng.choice([1, 2])
    params = {"p20": rng.randint(1, 3), "p21": rng.randint(1, 3), "p22": rng.randint(1, 2)}
    st_items = [(c, -1) for c in subs] + [(c, 1) for c in prods]
    if rng.random() < 0.5:
        rng.shuffle(st_items)  # declaration order of the stoichiometry is not the argument order
    rxns = [("v40", L.REV1 if ns == 1 else L.REV2, [*subs, *prods, "p20", "p21"], dict(st_items))]
    feed = rng.choice(subs)
    rxns.insert(0, ("v39", "FProd", ["p22"], {feed: 1}))
    drain = rng.choice(prods)
    args = [drain, "p22"] if rng.random() < 0.6 else [drain, by, "p22"]  # the bystander as (possibly labelled) modifier
    rxns.append(("v41", "FProd", args, {drain: -1}))
    base = {"params": params, "dpars": [], "vars": {c: rng.randint(0, 4) for c in cp}, "dvars": [], "rxns": rxns}
    maps, kinds = {}, []
    for name, _fk, _args, st in rxns:
        tsl, tpl = L.label_totals(lv, st)
        m, k = L.gen_map(rng, tsl, tpl, "dup" if (name == "v40" and rng.random() < 0.06) else rng.choice(["perm", "perm", "id"]))
        maps[name] = m
        kinds.append("rev-" + k if name == "v40" else k)
    return {"base": base, "lv": lv, "maps": maps, "init": None, "map_kinds": kinds}


def exhaustive_cases(thorough: bool):
    """Every map of the right length over the available positions for small one-reaction networks."""
    shapes = [
        # (substrate label counts, product label counts)
        ((1,), (1,)), ((2,), (2,)), ((1, 1), (2,)), ((2,), (1, 1)), ((1,), (2,)), ((2,), (1,)), ((), (2,)), ((2,), ()),
        ((1, 0), (1,)), ((1,), (0, 1)), ((2, 1, 1), (1,)), ((1,), (1, 2, 1)),
    ]
    if thorough:
        shapes += [((3,), (3,)), ((1, 2), (3,)), ((3,), (2, 1)), ((2, 1), (1, 2)), ((2,), (3,)), ((1, 1), (1, 1)), ((1, 1, 1), (3,))]
    for sub, prod in shapes:
        cpds = [f"c{i + 1}" for i in range(len(sub) + len(prod))]
        lv = {c: n for c, n in zip(cpds, sub + prod) if n > 0}
        st = {c: -1 for c in cpds[: len(sub)]} | {c: 1 for c in cpds[len(sub) :]}
        base = {
            "params": {"p20": 2},
            "dpars": [],
            "vars": {c: i + 1 for i, c in enumerate(cpds)},
            "dvars": [],
            "rxns": [("v40", "FProd", cpds[: len(sub)] + ["p20"], st)],
        }
        n = max(sum(sub), sum(prod))
        space = itertools.product(range(n), repeat=n) if n <= 3 else itertools.permutations(range(n))
        for m in space:
            yield {"base": base, "lv": lv, "maps": {"v40": list(m)}, "init": None, "map_kinds": ["enum"]}


def gen_state(rng, names: list[str]) -> dict[str, int]:
    return {k: rng.randint(0, 3) for k in names}


# ---------------------------------------------------------------------------------------
# histories of build_model calls on ONE LabelMapper (own random stream "c05-session"; the main stream is untouched)
# ---------------------------------------------------------------------------------------


def gen_init(rng, base: dict, lv: dict) -> dict | None:
    """`initial_labels` of one call (same shapes as in gen_case)."""
    if rng.random() < 0.25:
        return None
    init: dict[str, Any] = {}
    for c, n in lv.items():
        if rng.random() < 0.4:
            continue
        r = rng.random()
        if n == 0:
            if r < 0.5:
                init[c] = [] if r < 0.25 else 0
            continue
        if r < 0.45:
            init[c] = rng.randrange(n)
        elif r < 0.85:
            init[c] = sorted(rng.sample(range(n), rng.randint(0, n)))
        elif r < 0.93:
            init[c] = n + rng.randint(0, 1)
        else:
            init[c] = [rng.randrange(n), -1]
    return init


# the way a labelling experiment uses a mapper: the unlabelled reference model first, then the tracer placed on the substrates
# (network of seeded/C05-9/demo.py: in -> A(1); A + B(2) -> C(3); C -> A + B; B -> out; an unmapped decay of the unlabelled E
# reading the labelled pool A; a derived A + B)
SESSION_CORPUS = [
    {"base": {"params": {"p20": 1, "p21": 2, "p22": 1, "p23": 3}, "dpars": [], "vars": {"c1": 4, "c2": 2, "c3": 1, "c4": 2},
              "dvars": [("d61", "FSum", ["c1", "c2"])],
              "rxns": [("v40", "FProd", ["p20"], {"c1": 1}), ("v41", "FProd", ["c1", "c2", "p21"], {"c1": -1, "c2": -1, "c3": 1}),
                       ("v42", "FProd", ["c3", "p22"], {"c3": -1, "c1": 1, "c2": 1}), ("v43", "FProd", ["c2", "p23"], {"c2": -1}),
                       ("v44", "FProd", ["c4", "c1", "p23"], {"c4": -1})]},
     "lv": {"c1": 1, "c2": 2, "c3": 3}, "maps": {"v40": [0], "v41": [0, 1, 2], "v42": [2, 0, 1], "v43": [0, 1]},
     "inits": [None, {"c2": [0, 1], "c1": 0}], "poke": False, "map_kinds": ["corpus-session"]},
    # three tracer experiments from one mapper, results edited by the caller in between
    {"base": {"params": {"p20": 2}, "dpars": [], "vars": {"c1": 3, "c2": 4}, "dvars": [],
              "rxns": [("v40", "FProd", ["p20"], {"c1": 1}), ("v41", "FProd", ["c1", "p20"], {"c1": -1, "c2": 1}), ("v42", "FProd", ["c2", "p20"], {"c2": -1})]},
     "lv": {"c1": 1, "c2": 1}, "maps": {"v40": [0], "v41": [0], "v42": [0]},
     "inits": [None, {"c1": 0}, {"c2": [0]}], "poke": True, "map_kinds": ["corpus-session"]},
    # the same tracer specification (one dict object) handed to two calls
    {"base": {"params": {"p20": 2}, "dpars": [], "vars": {"c1": 3, "c2": 4}, "dvars": [],
              "rxns": [("v40", "FProd", ["p20"], {"c1": 1}), ("v41", "FProd", ["c1", "p20"], {"c1": -1, "c2": 1}), ("v42", "FProd", ["c2", "p20"], {"c2": -1})]},
     "lv": {"c1": 2, "c2": 2}, "maps": {"v40": [1, 0], "v41": [1, 0], "v42": [0, 1]},
     "inits": [{"c1": [0, 1], "c2": 1}, {"c1": [0, 1], "c2": 1}], "reuse": [False, True], "poke": False, "map_kinds": ["corpus-session"]},
    # the first call is refused (map of v41 too short): the refusal must be repeated, not forgotten
    {"base": {"params": {"p20": 1}, "dpars": [], "vars": {"c1": 1, "c2": 1}, "dvars": [],
              "rxns": [("v40", "FProd", ["p20"], {"c1": 1}), ("v41", "FProd", ["c1", "p20"], {"c1": -1, "c2": 1})]},
     "lv": {"c1": 2, "c2": 2}, "maps": {"v40": [0, 1], "v41": [0]},
     "inits": [None, None], "poke": False, "map_kinds": ["corpus-session"]},
]


def gen_session(rng) -> dict:
    case = gen_rev_case(rng) if rng.random() < 0.15 else gen_case(rng)
    inits: list = []
    reuse: list[bool] = []
    for j in range(rng.choice([2, 2, 2, 3, 4])):
        if j > 0 and inits[-1] and rng.random() < 0.25:
            inits.append(inits[-1])  # the caller hands over the same dict object again
            reuse.append(True)
            continue
        inits.append(None if (j == 0 and rng.random() < 0.5) else gen_init(rng, case["base"], case["lv"]))
        reuse.append(False)
    return {"base": case["base"], "lv": case["lv"], "maps": case["maps"], "inits": inits, "reuse": reuse, "poke": rng.random() < 0.3,
            "map_kinds": ["session"]}


def judge_build(sess: dict, k: int, out, model, states: list[dict[str, int]], known_ids) -> list[tuple[str, str | None]]:
    """The property on what the k-th call on the mapper returned: the mapper's fields with that call's initial labels."""
    case = {"base": sess["base"], "lv": sess["lv"], "maps": sess["maps"], "init": sess["inits"][k]}
    info = classify(case)
    bad = oracle_structure(case, out, info)
    if out[0] == "ok" and model is not None:
        bad += oracle_dynamics(case, model, info, states, known_ids)
    return [(f"call #{k + 1} of {len(sess['inits'])} on one LabelMapper (initial_labels={sess['inits'][k]}): {what}", fid) for what, fid in bad]


def run_session(sess: dict, rng, nstates: int, known_ids, stored_states: dict | None = None):
    """-> (outcomes, maps afterwards, label counts afterwards, [(what, finding id)], states per call, calls judged on dynamics)"""
    bad: list[tuple[str, str | None]] = []
    states_used: dict[str, list] = {}
    judged = [0]

    def judge(k, out, model):
        states: list[dict[str, int]] = []
        if out[0] == "ok" and model is not None:
            if stored_states is not None:
                states = [dict(x) for x in stored_states.get(str(k), [])]
            else:
                names = [n for n, _ in out[1]["vars"]]
                states = [gen_state(rng, names) for _ in range(nstates)]
            info = classify({"base": sess["base"], "lv": sess["lv"], "maps": sess["maps"], "init": sess["inits"][k]})
            if not (info["short"] or info["outside"] or info["nonmass"] or info["unmapped_touch"]):
                judged[0] += 1
        states_used[str(k)] = states
        bad.extend(judge_build(sess, k, out, model, states, known_ids))

    outs, after, lv_after = L.run_iso_session(sess["base"], sess["lv"], sess["maps"], sess["inits"], poke=sess.get("poke", False), judge=judge,
                                                 reuse=sess.get("reuse"))
    return outs, after, lv_after, bad, states_used, judged[0]


def coq_session(sess: dict, outs, after) -> str | None:
    built = [L.coq_result(o, "iso", "Z") for o in outs]
    if after is None or any(b is None for b in built):
        return None
    return (
        f"mkSessCase {L.coq_lv(sess['lv'])} {L.coq_maps(sess['maps'])} {common.clist(L.coq_init(i or {}) for i in sess['inits'])}\n    "
        f"{L.coq_base(sess['base'])}\n    {common.clist(built)}\n    {L.coq_maps(after)}"
    )


def sess_file(cases: list[str]) -> str:
    defs = "\n".join(f"Definition case_{i} : sess_case :=\n  {c}." for i, c in enumerate(cases))
    return (
        "From Coq Require Import List ZArith NArith QArith.\nFrom MxlBase Require Import ListX.\n"
        "From Label Require Import LModel Iso IsoSession Linear GenLabelFacts Exec.\nImport ListNotations.\n"
        + defs
        + "\nDefinition cases : list sess_case := "
        + common.clist(f"case_{i}" for i in range(len(cases)))
        + ".\nDefinition mismatches := filter_idx (fun c => negb (check_sess gen_build_maps (ext_bit_of gen_label_facts) (f_repl gen_label_facts) (f_init_name gen_label_facts) c)) cases.\n"
        "Eval vm_compute in mismatches.\n"
    )


# ---------------------------------------------------------------------------------------
# independent oracle: the property, judged on what the implementation built
# ---------------------------------------------------------------------------------------


def classify(case: dict) -> dict:
    """Which parts of the property apply to this input (documented domain) and which recorded findings it touches.

    mass-action class (the dynamics clause is judged):
      * irreversible: rate = product of its arguments, the compound arguments are exactly the substrate side (every unit
        once) plus compounds that take no part in the reaction (modifiers, labelled or not);
      * reversible, written as one reaction: rate = kf * substrates - kr * products with the compound arguments exactly the
        substrate side followed by the product side.
    Recorded findings (a failure of the dynamics clause on such a case is attributed to the finding while it is listed):
      homodimer          a labelled compound stands more than once on one side and in the rate
      labelled_modifier  a labelled compound (>= 1 position) enters the rate of a mapped reaction without taking part in it
      rev_unbalanced     reversible law whose substrate patterns do not correspond one-to-one to the product patterns
                         (different numbers of label positions on the two sides, or the map is not a permutation)
    """
    base, lv, maps = case["base"], case["lv"], case["maps"]
    rx = {r[0]: r for r in base["rxns"]}
    info = {"short": [], "outside": [], "homodimer": [], "nonmass": [], "unmapped_touch": [], "zero_init": [],
            "labelled_modifier": [], "rev_unbalanced": [], "reversible": []}
    for name, m in maps.items():
        if name not in rx:
            continue
        _, fk, args, st = rx[name]
        tsl, tpl = L.label_totals(lv, st)
        n = max(tsl, tpl)
        if len(m) < tsl:
            info["short"].append(name)
            continue
        if len(m) < tpl or any(not (0 <= i < n) for i in m):
            info["outside"].append(name)
        subs, prods = L.subs_prods(st)
        varargs = [a for a in args if a in base["vars"]]
        if fk == "FProd":
            sub_args = sorted(a for a in varargs if a in subs)
            others = [a for a in varargs if a not in subs]
            if sub_args != sorted(subs) or any(a in prods for a in others):
                info["nonmass"].append(name)
                continue
            if any(subs.count(c) > 1 and lv.get(c, 0) > 0 for c in set(subs)):
                info["homodimer"].append(name)
            if any(lv.get(a, 0) > 0 for a in others):
                info["labelled_modifier"].append(name)
        elif fk in (L.REV1, L.REV2):
            sa, pa, ks = L.rev_split(fk, args)
            if sorted(sa) != sorted(subs) or sorted(pa) != sorted(prods) or any(k in base["vars"] for k in ks):
                info["nonmass"].append(name)
                continue
            info["reversible"].append(name)
            if any(side.count(c) > 1 and lv.get(c, 0) > 0 for side in (subs, prods) for c in set(side)):
                info["homodimer"].append(name)
            if not (tsl == tpl and sorted(m[:tpl]) == list(range(tpl))):
                info["rev_unbalanced"].append(name)
        else:
            info["nonmass"].append(name)
    for name, _fk, _args, st in base["rxns"]:
        if name not in maps and any(lv.get(c, 0) > 0 for c in st):
            info["unmapped_touch"].append(name)
    init = case["init"] or {}
    info["zero_init"] = [c for c in init if c in lv and lv[c] == 0 and c in base["vars"]]
    return info


FINDING_OF = (("labelled_modifier", "c05-labelled-modifier"), ("homodimer", "c05-homodimer"), ("rev_unbalanced", "c05-reversible-unbalanced"))


def finding_for(info: dict, known_ids) -> str | None:
    """The recorded finding a failure of the dynamics clause on this case is attributed to (None: a VIOLATION)."""
    for key, fid in FINDING_OF:
        if info[key] and fid in known_ids:
            return fid
    return None


def oracle_structure(case: dict, out, info: dict) -> list[tuple[str, str | None]]:
    """-> [(what, finding id or None)]"""
    base, lv, maps = case["base"], case["lv"], case["maps"]
    bad: list[tuple[str, str | None]] = []
    tag, cm = out
    if info["short"]:
        if tag == "ok":
            bad.append((f"map of {info['short']} is shorter than the substrates' atoms but the model was built", None))
        return bad
    if info["outside"]:
        return bad  # index outside the positions / shorter than the products: no claim
    if tag != "ok":
        bad.append((f"valid input rejected with {cm}", None))
        return bad
    rxns = {k: (f, a, dict((c, v[1]) for c, v in st)) for k, f, a, st in cm["rxns"]}
    if len(rxns) != len(cm["rxns"]):
        bad.append(("duplicate reaction names", None))
    base_rx = {r[0]: r for r in base["rxns"]}
    for name, m in maps.items():
        if name not in base_rx:
            continue
        st = base_rx[name][3]
        subs, prods = L.subs_prods(st)
        ns = [lv.get(c, 0) for c in subs]
        npr = [lv.get(c, 0) for c in prods]
        tsl, tpl = sum(ns), sum(npr)
        ext = "1" * max(0, tpl - tsl)
        expected_names = [name + "__" + "".join(b) + ext for b in itertools.product("01", repeat=tsl)]
        got_names = [k for k in rxns if k.split("__")[0] == name]
        if sorted(got_names) != sorted(expected_names):
            bad.append((f"reactions generated for {name} with map {m}: {sorted(got_names)[:6]} != one per substrate pattern {sorted(expected_names)[:6]}", None))
            continue
        for rn in expected_names:
            stoich = rxns[rn][2]
            pattern = rn.split("__", 1)[1]
            # collapse: per compound the coefficients sum to the base coefficient, every key is an isotopomer
            per: dict[str, int] = {}
            for key, v in stoich.items():
                c = key.split("__")[0]
                if key not in L.iso_names(c, lv.get(c, 0)):
                    bad.append((f"{rn}: stoichiometry names {key}, not an isotopomer of {c} ({lv.get(c, 0)} labels)", None))
                per[c] = per.get(c, 0) + v
            if {c: v for c, v in per.items() if v != 0} != {c: v for c, v in st.items() if v != 0}:
                bad.append((f"{rn}: stoichiometry {stoich} does not collapse to the base stoichiometry {st}", None))
                continue
            # consumed isotopomers: the pattern, split over the substrates
            pos = 0
            cons: dict[str, int] = {}
            for c, n in zip(subs, ns):
                key = c + ("__" + pattern[pos : pos + n] if n else "")
                cons[key] = cons.get(key, 0) - 1
                pos += n
            # produced isotopomers: position i of the products carries substrate position map[i]
            full = pattern  # substrate pattern + external "1"s
            prod_bits = "".join(full[m[i]] if m[i] < tsl else "1" for i in range(tpl))
            pos = 0
            for c, n in zip(prods, npr):
                key = c + ("__" + prod_bits[pos : pos + n] if n else "")
                cons[key] = cons.get(key, 0) + 1
                pos += n
            if {k: v for k, v in cons.items() if v != 0} != {k: v for k, v in stoich.items() if v != 0}:
                bad.append((f"{rn} (map {m}): stoichiometry {stoich}, documented reading of the map gives {cons}", None))
    # initial amounts
    vars_ = dict(cm["vars"])
    init = case["init"] or {}
    for c, v in base["vars"].items():
        if c not in lv:
            if vars_.get(c) != v:
                bad.append((f"unlabelled {c}: initial amount {vars_.get(c)} != {v}", None))
            continue
        names = L.iso_names(c, lv[c])
        own = {k: x for k, x in vars_.items() if k.split("__")[0] == c}
        fid = None  # (a compound with 0 label positions and a requested initial label was a finding; repaired)
        if sorted(own) != sorted(names):
            bad.append((f"{c} ({lv[c]} labels): variables {sorted(own)} are not exactly its isotopomers", fid))
            continue
        if sum(own.values()) != v:
            bad.append((f"{c}: isotopomer initial amounts sum to {sum(own.values())}, base amount is {v}", fid))
            continue
        want = init.get(c)
        positions = [] if want is None else ([want] if isinstance(want, int) else list(want))
        if all(0 <= p < lv[c] for p in positions):
            target = c + ("__" + "".join("1" if i in positions else "0" for i in range(lv[c])) if lv[c] > 0 else "")
            if own.get(target) != v:
                bad.append((f"{c}: initial label requested at {positions} but {target} holds {own.get(target)} of {v}", fid))
    return bad


def oracle_dynamics(case: dict, model, info: dict, states: list[dict[str, int]], known_ids=None) -> list[tuple[str, str | None]]:
    """Summed isotopomer derivatives == base derivative at the totals (exact, integer states)."""
    if info["short"] or info["outside"] or info["nonmass"] or info["unmapped_touch"] or model is None:
        return []
    if known_ids is None:
        known_ids = {f["id"] for f in common.load_known_findings(PROP)}
    base, lv = case["base"], case["lv"]
    bm = L.build_base(base)
    bad = []
    fid = finding_for(info, known_ids)
    expected = [k for c in base["vars"] for k in L.iso_names(c, lv.get(c, 0))]
    if sorted(model.get_variable_names()) != sorted(expected):
        return []  # the variables are not the isotopomers: reported by oracle_structure, nothing to sum here
    for st in states:
        if any(k not in st for k in expected):
            continue
        totals = {}
        for c in base["vars"]:
            totals[c] = sum(st[k] for k in L.iso_names(c, lv.get(c, 0)))
        o1 = L.rhs_of(model, st)
        o2 = L.rhs_of(bm, totals)
        if o1[0] != "ok" or o2[0] != "ok":
            # (a labelled modifier of a mapped reaction keeps its base name in the dict form: nothing to evaluate)
            bad.append((f"right-hand side not computable: labelled {o1}, base {o2}", fid if info["labelled_modifier"] else None))
            break
        lab = dict(zip(model.get_variable_names(), o1[1]))
        bas = dict(zip(bm.get_variable_names(), o2[1]))
        for c in base["vars"]:
            s = sum(lab[k] for k in L.iso_names(c, lv.get(c, 0)))
            if s != bas[c]:
                bad.append((f"state {st}: summed derivative of {c}'s isotopomers {s} != base derivative at the totals {bas[c]}", fid))
                break
        if bad:
            break
    return bad


# ---------------------------------------------------------------------------------------
# correspondence
# ---------------------------------------------------------------------------------------


def coq_case(case: dict, out, rhs: list) -> str | None:
    built = L.coq_result(out, "iso", "Z")
    if built is None:
        return None
    return (
        f"mkIsoCase {L.coq_lv(case['lv'])} {L.coq_maps(case['maps'])} {L.coq_init(case['init'] or {})}\n    {L.coq_base(case['base'])}\n    {built}\n    "
        + common.clist(L.coq_rhs(st, o, "iso") for st, o in rhs)
    )


def corr_file(cases: list[str]) -> str:
    defs = "\n".join(f"Definition case_{i} : iso_case :=\n  {c}." for i, c in enumerate(cases))
    return (
        "From Coq Require Import List ZArith NArith QArith.\nFrom MxlBase Require Import ListX.\n"
        "From Label Require Import LModel Iso Linear GenLabelFacts Exec.\nImport ListNotations.\nOpen Scope Q_scope.\n"
        + defs
        + "\nDefinition cases : list iso_case := "
        + common.clist(f"case_{i}" for i in range(len(cases)))
        + ".\nDefinition mismatches := filter_idx (fun c => negb (check_iso (ext_bit_of gen_label_facts) (f_repl gen_label_facts) (f_init_name gen_label_facts) c)) cases.\n"
        "Eval vm_compute in mismatches.\n"
    )


# ---------------------------------------------------------------------------------------
# known findings
# ---------------------------------------------------------------------------------------


def replay_case(case: dict, states: list[dict[str, int]] | None = None) -> list[tuple[str, str | None]]:
    info = classify(case)
    out, model = L.run_iso(case["base"], case["lv"], case["maps"], case["init"])
    bad = oracle_structure(case, out, info)
    if model is not None and out[0] == "ok":
        if states is None:
            rng = common.rng_for(1, "c05-replay")
            names = [k for k, _ in out[1]["vars"]]
            states = [gen_state(rng, names) for _ in range(3)]
        bad += oracle_dynamics(case, model, info, states)
    return bad


def check(run: Run) -> None:
    thorough = run.tier == "thorough"
    facts = gen()
    run.coverage["gen_facts"] = facts
    run.rule = (
        "random base networks (2-5 compounds, 1-4 reactions: influx, efflux, uni, bi, split, coefficient 2, homodimer, labelled / unlabelled "
        "modifiers, reversible mass action written as one reaction (1-2 substrates, 1-2 products, homodimers on either side), additive "
        "non-mass-action, derived parameters/variables, unlabelled bystanders; every 6th case a feed -> reversible -> drain network with equally "
        "many positions on both sides and stoichiometries declared in shuffled order) x label counts 0-3 x maps (permutations, identity, "
        "duplicating, short, too short for the products, long, out-of-range, negative) x initial labels (int/list/invalid), plus EVERY "
        "map of the right length for small one-reaction shapes; right-hand sides at 2-3 integer states per built model. A case is "
        "non-trivial if at least one reaction is mapped; distinct by content. "
        "Then HISTORIES on one LabelMapper object (own random stream c05-session; corpus first: reference build then tracer builds, a refused first "
        "call): 2-4 build_model calls per mapper with independent initial_labels, in 30 % of them the caller edits the containers of every returned "
        "model before the next call, a quarter of the later calls is handed the very dict object of the previous call; EVERY call is judged by the same oracle as a single call (structure, totals, dynamics) and the whole history plus "
        "the mapper's label_maps afterwards is compared with the Coq model of the object (IsoSession.v)"
    )
    proofs_ok = run.check_proofs(AREA, PROPS)
    run.assumptions += [
        "Coq 8.16.1 kernel + vm_compute; theorems closed under the global context (see trusted_base)",
        "fact extractor harness/c05_label.py::extract_facts (fail-closed ast matcher + pinned shapes of the helpers)",
        "modelled, not verified: Model.add_* / get_right_hand_side (dxdt = sum coefficient*flux over the stoichiometry), Python dict "
        "insertion order (association lists), str indexing/slicing (py_index, firstn/skipn), itertools.product order",
        "rate functions: mass action = product of all arguments (FProd), reversible mass action kf*S.. - kr*P.. (FRev m); binary64 evaluation "
        "assumed exact on the small integers used",
        "coq/label/ExpectedFacts.v is a hand-edited switch (expected form of the rate-argument renaming block), kept consistent with "
        "known_findings.d/C05.json by tools/c05_switch.py; the general collapse statement for reversible laws is validated, not proved",
        "correspondence harness: literal printers, name parser, coqc output parser",
    ]
    rng = common.rng_for(run.seed, "c05")
    known = {f["id"]: f for f in common.load_known_findings(PROP)}

    cases = [dict(c) for c in REGRESSION_CASES] + list(exhaustive_cases(thorough))
    for f in known.values():
        if "case" in f.get("witness", {}):
            cases.insert(0, f["witness"]["case"] | {"map_kinds": ["witness"]})
    for i in range(6000 if thorough else 700):
        cases.append(gen_rev_case(rng) if i % 6 == 5 else gen_case(rng))

    dist = {"map_kinds": {}, "impl_outcomes": {}, "label_counts": {}, "judged_dynamics": 0, "judged_dynamics_reversible": 0,
            "judged_dynamics_with_modifier": 0, "outside_domain": 0, "rhs_errors": 0}
    coq_cases: list[str] = []
    coq_index: list[int] = []
    n_viol = 0
    hits: dict[str, int] = {}
    for idx, case in enumerate(cases):
        info = classify(case)
        out, model = L.run_iso(case["base"], case["lv"], case["maps"], case["init"])
        for k in case["map_kinds"]:
            dist["map_kinds"][k] = dist["map_kinds"].get(k, 0) + 1
        for n in case["lv"].values():
            dist["label_counts"][n] = dist["label_counts"].get(n, 0) + 1
        okey = out[0] if out[0] == "ok" else out[1]
        dist["impl_outcomes"][okey] = dist["impl_outcomes"].get(okey, 0) + 1
        run.count_case((case["base"], case["lv"], case["maps"], case["init"]), nontrivial=bool(case["maps"]))
        rhs = []
        states = []
        if out[0] == "ok" and model is not None:
            names = [k for k, _ in out[1]["vars"]]
            states = [dict(x) for x in case.get("states", [])] + [gen_state(rng, names) for _ in range(3 if thorough else 2)]
            for st in states:
                o = L.rhs_of(model, st)
                if o[0] != "ok":
                    dist["rhs_errors"] += 1
                rhs.append((st, o))
        bad = oracle_structure(case, out, info)
        dyn = oracle_dynamics(case, model, info, states, set(known)) if out[0] == "ok" else []
        if out[0] == "ok" and not (info["short"] or info["outside"] or info["nonmass"] or info["unmapped_touch"]):
            dist["judged_dynamics"] += 1
            if info["reversible"] and not info["rev_unbalanced"]:
                dist["judged_dynamics_reversible"] += 1
            if any(a in case["base"]["vars"] and a not in r[3] for r in case["base"]["rxns"] if r[0] in case["maps"] for a in r[2]):
                dist["judged_dynamics_with_modifier"] += 1
        if info["outside"]:
            dist["outside_domain"] += 1
        for what, fid in bad + dyn:
            if fid is not None and fid in known:
                hits[fid] = hits.get(fid, 0) + 1
                continue
            if n_viol < 5:
                n_viol += 1
                run.violation(f"LabelMapper.build_model: {what}", {"kind": "iso", "case": _plain(case), "states": states})
        if idx < 3 or (case["maps"] and len(run.samples) < 5 and idx > 200):
            run.sample({"lv": case["lv"], "maps": case["maps"], "init": case["init"], "rxns": case["base"]["rxns"], "outcome": okey})
        cc = coq_case(case, out, rhs)
        if cc is None:
            run.broken_correspondence.append(f"implementation outcome {out} of case #{idx} has no counterpart in the model: {_plain(case)}")
        else:
            coq_cases.append(cc)
            coq_index.append(idx)
    run.coverage["input_distribution"] = dist
    run.coverage["known_finding_hits_in_generated_cases"] = hits

    # ---- histories of calls on ONE LabelMapper object: every call is judged like a first call ----
    srng = common.rng_for(run.seed, "c05-session")
    sessions = [dict(x) for x in SESSION_CORPUS] + [gen_session(srng) for _ in range(1500 if thorough else 220)]
    sdist = {"sessions": 0, "calls": 0, "later_calls": 0, "later_calls_built": 0, "later_calls_judged_on_dynamics": 0, "first_call_refused": 0,
             "results_edited_between_calls": 0, "calls_handed_the_previous_dict_object": 0, "mapper_fields_changed": 0, "calls_per_session": {}}
    sess_cases: list[str] = []
    sess_index: list[int] = []
    for sidx, sess in enumerate(sessions):
        outs, after, lv_after, bad, sstates, _nj = run_session(sess, srng, 2, set(known))
        n = len(outs)
        sdist["sessions"] += 1
        sdist["calls"] += n
        sdist["later_calls"] += n - 1
        sdist["later_calls_built"] += sum(1 for o in outs[1:] if o[0] == "ok")
        sdist["first_call_refused"] += int(outs[0][0] != "ok")
        sdist["results_edited_between_calls"] += int(bool(sess.get("poke")))
        sdist["calls_handed_the_previous_dict_object"] += sum(1 for x in (sess.get("reuse") or []) if x)
        sdist["calls_per_session"][n] = sdist["calls_per_session"].get(n, 0) + 1
        for k in range(1, n):
            ck = {"base": sess["base"], "lv": sess["lv"], "maps": sess["maps"], "init": sess["inits"][k]}
            ik = classify(ck)
            if outs[k][0] == "ok" and not (ik["short"] or ik["outside"] or ik["nonmass"] or ik["unmapped_touch"]):
                sdist["later_calls_judged_on_dynamics"] += 1
        for mk in sess["map_kinds"]:
            dist["map_kinds"][mk] = dist["map_kinds"].get(mk, 0) + 1
        run.count_case(("session", sess["base"], sess["lv"], sess["maps"], sess["inits"], sess.get("poke", False), sess.get("reuse")), nontrivial=bool(sess["maps"]) and n >= 2)
        for what, fid in bad:
            if fid is not None and fid in known:
                hits[fid] = hits.get(fid, 0) + 1
                continue
            if n_viol < 5:
                n_viol += 1
                run.violation(f"LabelMapper.build_model: {what}", {"kind": "session", "session": _plain_session(sess), "states": sstates})
        if sidx == 0:
            run.sample({"lv": sess["lv"], "maps": sess["maps"], "inits": sess["inits"], "rxns": sess["base"]["rxns"],
                        "outcomes": [o[0] if o[0] == "ok" else o[1] for o in outs]})
        if lv_after != sess["lv"] or after != {k: list(v) for k, v in sess["maps"].items()}:
            sdist["mapper_fields_changed"] += 1
        if lv_after != sess["lv"]:
            run.broken_correspondence.append(f"build_model changed the mapper's label_variables to {lv_after} (the model never writes them): session #{sidx} {_plain_session(sess)}")
            continue
        sc = coq_session(sess, outs, after)
        if sc is None:
            run.broken_correspondence.append(f"outcomes {[o if o[0] != 'ok' else 'ok' for o in outs]} / label_maps afterwards {after} of session #{sidx} have no counterpart in the model: {_plain_session(sess)}")
        else:
            sess_cases.append(sc)
            sess_index.append(sidx)
    run.coverage["input_distribution"]["histories_on_one_mapper"] = sdist

    per = 150
    sper = 60
    files = {f"c05_{k:04d}": corr_file(chunk) for k, chunk in enumerate(common.chunks(coq_cases, per))}
    sfiles = {f"c05_s{k:04d}": sess_file(chunk) for k, chunk in enumerate(common.chunks(sess_cases, sper))}
    res = common.coq_eval_many(AREA, files | sfiles, timeout_s=900)
    smism = 0
    for k, name in enumerate(sorted(sfiles)):
        ok, outp = res[name]
        lists = common.parse_eval_list(outp) if ok else None
        if not ok or not lists:
            run.broken_correspondence.append(f"correspondence shard {name} did not evaluate: {outp[-300:]}")
            continue
        for j in lists[-1]:
            smism += 1
            si = sess_index[k * sper + j]
            if len(run.broken_correspondence) < 5:
                run.broken_correspondence.append(f"model/implementation disagree on the history of calls #{si}: {_plain_session(sessions[si])}")
    run.coverage["histories_validated_against_impl"] = len(sess_cases) - smism
    mism = 0
    for k, name in enumerate(sorted(files)):
        ok, outp = res[name]
        lists = common.parse_eval_list(outp) if ok else None
        if not ok or not lists:
            run.broken_correspondence.append(f"correspondence shard {name} did not evaluate: {outp[-300:]}")
            continue
        for j in lists[-1]:
            mism += 1
            ci = coq_index[k * per + j]
            if len(run.broken_correspondence) < 5:
                run.broken_correspondence.append(f"model/implementation disagree on case #{ci}: {_plain(cases[ci])}")
    run.coverage["traces_validated_against_impl"] = len(coq_cases) - mism
    run.coverage["correspondence_mismatches"] = mism + smism

    # known findings: replay every witness
    for fid, f in known.items():
        w = f.get("witness", {})
        if "case" not in w:
            continue
        bad = replay_case(w["case"], w.get("states"))
        if any(b[1] == fid for b in bad):
            run.known(fid, f.get("what_fails", ""))
        else:
            run.note(f"known finding {fid} no longer reproduces (fixed?) -- remove it from known_findings.d/C05.json")
    if not proofs_ok:
        run.note("proof obligations broken; the generated cases were searched with the oracle for a concrete failing input")


def _plain(case: dict) -> dict:
    return {k: case[k] for k in ("base", "lv", "maps", "init")}


def _plain_session(sess: dict) -> dict:
    return {k: sess[k] for k in ("base", "lv", "maps", "inits")} | {"poke": bool(sess.get("poke", False)), "reuse": list(sess.get("reuse") or [])}


def replay_session(r: dict) -> int:
    known = {f["id"] for f in common.load_known_findings(PROP)}
    sess = r["session"]
    outs, after, lv_after, bad, _st, _nj = run_session(sess, common.rng_for(1, "c05-replay"), 2, known, stored_states=r.get("states"))
    for what, fid in bad:
        print(("known finding " + fid + ": " if fid in known else "FAILS: ") + what)
    print("mapper.label_maps after the calls:", after, "(given:", sess["maps"], ")")
    if not bad:
        print("property holds on this history of calls")
    return 1 if [b for b in bad if b[1] not in known] else 0


def replay(rep: dict) -> int:
    r = rep["replay"]
    if r.get("kind") == "session":
        return replay_session(r)
    if r.get("kind") != "iso":
        print("nothing to replay:", rep.get("what"))
        return 1
    known = {f["id"] for f in common.load_known_findings(PROP)}
    bad = replay_case(r["case"], r.get("states"))
    for what, fid in bad:
        print(("known finding " + fid + ": " if fid in known else "FAILS: ") + what)
    real = [b for b in bad if b[1] not in known]
    if not bad:
        print("property holds on this input")
    return 1 if real else 0
