"""C07 -- generated Python/TypeScript/Rust/Julia right-hand sides equal the model.

Tie to the source:
  (1) facts regenerated from src/mxlpy/meta/codegen_model.py and sympy_tools.py into
      coq/codegen/GenCodegenFacts.v: the three templates of every language (classified), the
      emission order of derived quantities/reactions, whether the cached parameter dict is copied
      before the free parameters are popped, and "every other statement is the modelled one"
      (normalised comparison) -- PropsC07.v pins them;
  (2) correspondence inside Coq (vm_compute): for every generated model x language the Gallina
      `generate` must produce the program whose skeleton the harness reads back from the emitted
      TEXT, the executable specification must give the values the REAL model returns, and `exec`
      must give the outcome that EXECUTING the text gives (CPython / node / rustc / Julia-subset
      interpreter), incl. the failure class;
  (3) an independent oracle judges the property itself: generation raises iff a function does
      not translate, the text runs, returns one number per variable in declaration order, equal
      (exactly, dyadic rationals) to what Model.__call__ returns with the free parameters updated;
      the same request a second time gives the same text and the model's parameters are untouched.

The pinned facts are those of the tree with the three applied repairs (b1ee1b9, 24c6733, 3b18255);
the snapshot's facts are kept in Coq as regression witnesses (C07_snapshot_*_refuted).  Three more
facts (`ia`, `untouched`, `bind`) belong to repairs that were / are proposed separately: the value the
check expects is read from coq/codegen/ExpectedFacts.v (tools/c07_switch.py).  `bind` is the form of
the argument binding of source_tools.py::fn_to_sympy (coq/codegen/CallArity.v, harness/c07_arity.py).  Cases inside a
RECORDED finding's guard (known_findings.d/C07.json, `finding_for`) are counted, not reported.

Besides random models the check sweeps the whole function table (harness/c07_fns.py): every
translatable function as a rate, as a derived quantity and as a computed coefficient over free
parameters, at argument tuples that take every condition of its source to True and to False
(c07_gen.probes instruments the source; fail-closed).
"""

from __future__ import annotations

import ast
import copy
import json
import re
import shutil
import signal
from fractions import Fraction
from typing import Any

from harness import c07_arity as A
from harness import c07_exec as X
from harness import c07_fns as FN
from harness import c07_gen as G
from harness import c07_scope as S
from harness import common
from harness.common import Run, clist, cn, cq

AREA = "codegen"
PROPS = "PropsC07.v"

# ---------------------------------------------------------------------------------------
# (1) fact extraction (fail-closed)
# ---------------------------------------------------------------------------------------

_PRE = [
    "source: list[str] = []",
    "variables = model.get_initial_conditions()",
]
_PARAM_PLAIN = "parameters = model.get_parameter_values()"
_PARAM_COPIES = {
    "parameters = dict(model.get_parameter_values())",
    "parameters = model.get_parameter_values().copy()",
    "parameters = {**model.get_parameter_values()}",
    "parameters = copy.copy(model.get_parameter_values())",
}
# fixes/C07-assigned-parameter-value.diff: parameters defined by an initial assignment enter with the
# value the model holds for them
_IA_BLOCK = [
    "all_parameter_values = model._create_cache().all_parameter_values",
    "for name in model.get_parameter_names():\n    if name not in parameters:\n        parameters[name] = float(all_parameter_values[name])",
]
# fixes/C07-untouched-variable-zero.diff: an explicit zero for the variables no reaction acts on
_ZERO_BLOCK = (
    "if len(diff_eqs) > 0:\n    for variable in variables:\n        if variable not in diff_eqs:\n"
    "            diff_eqs[variable] = {}\n"
    "            source.append(assignment_template.format(k=f'd{variable}dt', v='0.0'))"
)
# the same block with the zero produced "like every other equation": the empty sum (sympy.Integer(0)) through
# the language printer -- `0` in every language, which Rust does not accept for an f64 (seeded change C07-9)
_ZERO_BLOCK_PRINTED = (
    "if len(diff_eqs) > 0:\n    for variable in variables:\n        if variable not in diff_eqs:\n"
    "            diff_eqs[variable] = {}\n"
    "            expr = stoichiometries_to_sympy(origin=variable, stoichs={})\n"
    "            source.append(assignment_template.format(k=f'd{variable}dt', v=sympy_inline_fn(expr)))"
)
_MID = [
    "if imports is not None:\n    source.extend(imports)",
    "if not sized:\n    source.append(model_fn)\nelse:\n    source.append(model_fn.format(n=len(variables)))",
    "if len(variables) > 0:\n    source.append(variables_template.format(', '.join(variables)))",
    "if free_parameters is not None:\n    for key in free_parameters:\n        parameters.pop(key)",
    "if len(parameters) > 0:\n    source.append('\\n'.join((assignment_template.format(k=k, v=v) for k, v in parameters.items())))",
]
_EMIT_DECL = [
    "for name, derived in model.get_raw_derived().items():\n"
    "    expr = custom_fns.get(name)\n"
    "    if expr is None:\n"
    "        expr = fn_to_sympy(derived.fn, origin=name, model_args=list_of_symbols(derived.args))\n"
    "    if expr is None:\n"
    "        msg = '...'\n"
    "        raise ValueError(msg)\n"
    "    source.append(assignment_template.format(k=name, v=sympy_inline_fn(expr)))",
    "for name, rxn in model.get_raw_reactions().items():\n"
    "    expr = custom_fns.get(name)\n"
    "    if expr is None:\n"
    "        try:\n"
    "            expr = fn_to_sympy(rxn.fn, origin=name, model_args=list_of_symbols(rxn.args))\n"
    "        except KeyError:\n"
    "            _LOGGER.warning('Failed to parse %s', name)\n"
    "    if expr is None:\n"
    "        msg = '...'\n"
    "        raise ValueError(msg)\n"
    "    source.append(assignment_template.format(k=name, v=sympy_inline_fn(expr)))",
]
_EMIT_DEP = [
    "derived = model.get_raw_derived()",
    "reactions = model.get_raw_reactions()",
    "for name in model._create_cache().order:\n"
    "    if (der := derived.get(name)) is not None:\n"
    "        expr = custom_fns.get(name)\n"
    "        if expr is None:\n"
    "            expr = fn_to_sympy(der.fn, origin=name, model_args=list_of_symbols(der.args))\n"
    "        if expr is None:\n"
    "            msg = '...'\n"
    "            raise ValueError(msg)\n"
    "        source.append(assignment_template.format(k=name, v=sympy_inline_fn(expr)))\n"
    "    elif (rxn := reactions.get(name)) is not None:\n"
    "        expr = custom_fns.get(name)\n"
    "        if expr is None:\n"
    "            try:\n"
    "                expr = fn_to_sympy(rxn.fn, origin=name, model_args=list_of_symbols(rxn.args))\n"
    "            except KeyError:\n"
    "                _LOGGER.warning('Failed to parse %s', name)\n"
    "        if expr is None:\n"
    "            msg = '...'\n"
    "            raise ValueError(msg)\n"
    "        source.append(assignment_template.format(k=name, v=sympy_inline_fn(expr)))",
]
_POST = [
    "diff_eqs = {}",
    "for rxn_name, rxn in model.get_raw_reactions().items():\n"
    "    for var_name, factor in rxn.stoichiometry.items():\n"
    "        diff_eqs.setdefault(var_name, {})[rxn_name] = factor",
    "for variable, stoich in diff_eqs.items():\n"
    "    expr = stoichiometries_to_sympy(origin=variable, stoichs=stoich)\n"
    "    source.append(assignment_template.format(k=f'd{variable}dt', v=sympy_inline_fn(expr)))",
    "if len(model._surrogates) > 0:\n    msg = '...'\n    _LOGGER.warning(msg)",
    "ret_order = [i for i in variables if i in diff_eqs]",
    "ret = ', '.join((f'd{i}dt' for i in ret_order)) if len(diff_eqs) > 0 else '()'",
    "source.append(return_template.format(ret))",
    "if end is not None:\n    source.append(end)",
    "return '\\n'.join(source)",
]
_STOICH = [
    "expr = sympy.Integer(0)",
    "for rxn_name, rxn_stoich in stoichs.items():\n"
    "    if isinstance(rxn_stoich, Derived):\n"
    "        sympy_fn = fn_to_sympy(rxn_stoich.fn, origin=origin, model_args=list_of_symbols(rxn_stoich.args))\n"
    "        expr = expr + sympy_fn * sympy.Symbol(rxn_name)\n"
    "    else:\n"
    "        expr = expr + rxn_stoich * sympy.Symbol(rxn_name)",
    "return expr.subs(1.0, 1)",
]
_PRINTERS = {"sympy_to_inline_py": "pycode", "sympy_to_inline_js": "jscode", "sympy_to_inline_rust": "rust_code", "sympy_to_inline_julia": "julia_code"}

_WRAPPER = {
    "py": (
        "if free_parameters is None:\n"
        "    model_fn = 'def model(time: float, variables: Iterable[float]) -> Iterable[float]:'\n"
        "else:\n"
        "    args = ', '.join((f'{k}: float' for k in free_parameters))\n"
        "    model_fn = f'def model(time: float, variables: Iterable[float], {args}) -> Iterable[float]:'\n"
        "return _generate_model_code(model, imports=['import math\\n', 'from collections.abc import Iterable\\n'], sized=<S>, "
        "model_fn=model_fn, variables_template=<V>, assignment_template=<A>, sympy_inline_fn=sympy_to_inline_py, "
        "return_template=<R>, end=None, free_parameters=free_parameters, custom_fns={} if custom_fns is None else custom_fns)"
    ),
    "ts": (
        "if free_parameters is None:\n"
        "    model_fn = 'function model(time: number, variables: number[]) {'\n"
        "else:\n"
        "    args = ', '.join((f'{k}: number' for k in free_parameters))\n"
        "    model_fn = f'function model(time: number, variables: number[], {args}) {{'\n"
        "return _generate_model_code(model, imports=[], sized=<S>, model_fn=model_fn, variables_template=<V>, "
        "assignment_template=<A>, sympy_inline_fn=sympy_to_inline_js, return_template=<R>, end='};', "
        "free_parameters=free_parameters, custom_fns={} if custom_fns is None else custom_fns)"
    ),
    "rs": (
        "if free_parameters is None:\n"
        "    model_fn = 'fn model(time: f64, variables: &[f64; {n}]) -> [f64; {n}] {{'\n"
        "else:\n"
        "    args = ', '.join((f'{k}: f64' for k in free_parameters))\n"
        "    model_fn = f'fn model(time: f64, variables: &[f64; {{n}}], {args}) -> [f64; {{n}}] {{{{'\n"
        "return _generate_model_code(model, imports=None, sized=<S>, model_fn=model_fn, variables_template=<V>, "
        "assignment_template=<A>, sympy_inline_fn=sympy_to_inline_rust, return_template=<R>, end='}', "
        "free_parameters=free_parameters, custom_fns={} if custom_fns is None else custom_fns)"
    ),
    "jl": (
        "if free_parameters is None:\n"
        "    model_fn = 'function model(time, variables)'\n"
        "else:\n"
        "    args = ', '.join((f'{k}' for k in free_parameters))\n"
        "    model_fn = f'function model(time, variables, {args})'\n"
        "return _generate_model_code(model, imports=None, sized=<S>, model_fn=model_fn, variables_template=<V>, "
        "assignment_template=<A>, sympy_inline_fn=sympy_to_inline_julia, return_template=<R>, end='end', "
        "free_parameters=free_parameters, custom_fns={} if custom_fns is None else custom_fns)"
    ),
}
_ASG = {
    "py": {"    {k}: float = {v}": "AsgName"},
    "ts": {"    let {k}: number = {v};": "AsgName"},
    "rs": {"    let {k}: f64 = {v};": "AsgName"},
    "jl": {"    k = {v}": "AsgLitK", "    {k} = {v}": "AsgName"},
}
_DS = {
    "py": {"    {} = variables": "DsBare", "    [{}] = variables": "DsList"},
    "ts": {"    let [{}] = variables;": "DsList"},
    "rs": {"    let [{}] = *variables;": "DsList"},
    "jl": {"    {} = *variables": "DsSplat", "    {} = variables": "DsBare"},
}
_RET = {
    "py": {"    return {}": "RetBare", "    return [{}]": "RetBracket"},
    "ts": {"    return [{}];": "RetBracket"},
    "rs": {"    return [{}]": "RetBracket"},
    "jl": {"    return {}": "RetBare"},
}

# ---- the argument binding of source_tools.py::fn_to_sympy (coq/codegen/CallArity.v) --------------
_BIND_PRE = [
    "fn_def = get_fn_ast(fn)",
    "fn_args = [str(arg.arg) for arg in fn_def.args.args]",
    "sympy_expr = _handle_fn_body(fn_def.body, ctx=Context(symbols={name: sympy.Symbol(name) for name in fn_args}, "
    "caller=fn, parent_module=inspect.getmodule(fn), origin=origin, modules={}, fns={}))",
    "if sympy_expr is None:\n    return None",
    "if isinstance(sympy_expr, float):\n    return sympy.Float(sympy_expr)",
]
_BIND_SUBS = "    sympy_expr = sympy_expr.subs(dict(zip(fn_args, model_args, strict=True)), simultaneous=True)"
_BIND_FORMS = {
    "if model_args is not None:\n" + _BIND_SUBS: "BkStrict",
    "if model_args is not None and len(model_args):\n" + _BIND_SUBS: "BkStrictNonEmpty",
    # zip without strict=True: a parameter that gets no argument stays behind as a bare symbol (seeded C07-6)
    "if model_args is not None and len(model_args):\n"
    "    sympy_expr = sympy_expr.subs(dict(zip(fn_args, model_args)), simultaneous=True)": "BkLaxNonEmpty",
    "if model_args is not None and len(model_args):\n    replacements = dict(zip(fn_args, model_args))\n"
    "    sympy_expr = sympy_expr.subs(replacements, simultaneous=True)": "BkLaxNonEmpty",
}
_BIND_POST = ["return cast(sympy.Expr, sympy_expr)"]
_BIND_HANDLER = ("(TypeError, ValueError, NotImplementedError)", "return None")
_HANDLE_NAME = [
    "value = ctx.symbols.get(node.id)",
    "if value is None:\n    global_variables = dict(inspect.getmembers(ctx.parent_module, predicate=lambda x: isinstance(x, float)))\n"
    "    value = sympy.Float(global_variables[node.id])",
    "return value",
]
# the module's float constants consulted FIRST, the symbol table only for names that are no constant: a
# constant shadows a parameter / local of the same name (seeded change C07-8; coq/codegen/NameScope.v)
_HANDLE_NAME_GLOBAL_FIRST = [
    "global_variables = dict(inspect.getmembers(ctx.parent_module, predicate=lambda x: isinstance(x, float)))",
    "if (constant := global_variables.get(node.id)) is not None:\n    return sympy.Float(constant)",
    "return ctx.symbols[node.id]",
]
_HANDLE_NAME_FORMS = (("NkLocalFirst", _HANDLE_NAME), ("NkGlobalFirst", _HANDLE_NAME_GLOBAL_FIRST))
_HANDLE_CALL_HEAD = [
    "if node.keywords:\n    msg = '...'\n    raise NotImplementedError(msg)",
    "model_args: list[sympy.Expr] = []",
    "for i in node.args:\n    if (expr := _handle_expr(i, ctx)) is None:\n        return None\n    model_args.append(expr)",
]
_HANDLE_CALL_TAIL = "return fn_to_sympy(py_fn, origin=ctx.origin, model_args=model_args)"


def extract_name_fact() -> str:
    """Which table _handle_name consults first (fail-closed: NkUnknown)."""
    try:
        tree = ast.parse((common.REPO / "src/mxlpy/meta/source_tools.py").read_text())
    except (OSError, SyntaxError):
        return "NkUnknown"
    hn = _find(tree, "_handle_name")
    if hn is None:
        return "NkUnknown"
    st = _stmts(hn)
    return next((k for k, form in _HANDLE_NAME_FORMS if st == form), "NkUnknown")


def extract_bind_fact() -> str:
    """Which form the binding statement of fn_to_sympy has (fail-closed: BkUnknown): the whole try
    body of fn_to_sympy, its exception handler, _handle_name (a name that is no parameter: KeyError)
    and the head / the recursive tail of _handle_call must be the modelled ones."""
    try:
        tree = ast.parse((common.REPO / "src/mxlpy/meta/source_tools.py").read_text())
    except (OSError, SyntaxError):
        return "BkUnknown"
    fn, hn, hc = (_find(tree, n) for n in ("fn_to_sympy", "_handle_name", "_handle_call"))
    if fn is None or hn is None or hc is None:
        return "BkUnknown"
    tries = [x for x in fn.body if isinstance(x, ast.Try)]
    rest = [x for x in fn.body if not isinstance(x, ast.Try) and not (isinstance(x, ast.Expr) and isinstance(x.value, ast.Constant))]
    if len(tries) != 1 or rest or tries[0].orelse or tries[0].finalbody or len(tries[0].handlers) != 1:
        return "BkUnknown"
    h = tries[0].handlers[0]
    if h.type is None or ast.unparse(h.type) != _BIND_HANDLER[0] or ast.unparse(h.body[-1]) != _BIND_HANDLER[1]:
        return "BkUnknown"
    body = [ast.unparse(x) for x in tries[0].body]
    if len(body) != len(_BIND_PRE) + 2 or body[: len(_BIND_PRE)] != _BIND_PRE or body[-1:] != _BIND_POST:
        return "BkUnknown"
    # either modelled order of _handle_name's two lookups (its own fact, extract_name_fact): in both a name
    # that is neither a parameter nor a float constant of the module is a KeyError, which is all the binding
    # model assumes of it
    if not any(_stmts(hn) == form for _k, form in _HANDLE_NAME_FORMS):
        return "BkUnknown"
    sc = _stmts(hc)
    if sc[:3] != _HANDLE_CALL_HEAD or sc[-1] != _HANDLE_CALL_TAIL:
        return "BkUnknown"
    return _BIND_FORMS.get(body[len(_BIND_PRE)], "BkUnknown")


def _expected_switch() -> dict[str, str]:
    """the two hand-maintained lines of coq/codegen/ExpectedFacts.v (tools/c07_switch.py)"""
    text = (common.area_dir(AREA) / "ExpectedFacts.v").read_text()
    ia = re.search(r"Definition C07_expected_ia : ia_kind := (\w+)\.", text)
    ut = re.search(r"Definition C07_expected_untouched : ut_kind := (\w+)\.", text)
    bk = re.search(r"Definition C07_expected_bind : bind_kind := (\w+)\.", text)
    utv = ut.group(1) if ut else "UtUnknown"
    return {"ia": ia.group(1) if ia else "IaUnknown", "untouched": utv,
            "bind": bk.group(1) if bk else "BkUnknown",
            # no switch of their own: the tree's forms (PropsC07.v: C07_name_fact_pinned, C07_zero_literal_pinned)
            "name": "NkLocalFirst", "zero_lit": {"UtZero": "ZlFloat", "UtDropped": "ZlAbsent"}.get(utv, "ZlUnknown")}


EXPECTED_FACTS = {
    "py": ("AsgName", "DsList", "RetBracket", "false"),
    "ts": ("AsgName", "DsList", "RetBracket", "false"),
    "rs": ("AsgName", "DsList", "RetBracket", "true"),
    "jl": ("AsgLitK", "DsSplat", "RetBare", "true"),
    "order": "OrdDep",
    "copy": "true",
    "shape_ok": "true",
    "stoich_ok": "true",
    "printers_ok": "true",
}  # + "ia" / "untouched": whatever coq/codegen/ExpectedFacts.v says (snapshot or repaired)


class _NormMsg(ast.NodeTransformer):
    """`msg = <any string>` -> `msg = '...'` (message wording is not modelled)"""

    def visit_Assign(self, node: ast.Assign) -> Any:
        if len(node.targets) == 1 and isinstance(node.targets[0], ast.Name) and node.targets[0].id == "msg":
            if isinstance(node.value, (ast.JoinedStr, ast.Constant)):
                node.value = ast.Constant("...")
        return node


def _stmts(fn: ast.FunctionDef) -> list[str]:
    body = [s for s in fn.body if not (isinstance(s, ast.Expr) and isinstance(s.value, ast.Constant) and isinstance(s.value.value, str))]
    return [ast.unparse(_NormMsg().visit(copy.deepcopy(s))) for s in body]


def _find(tree: ast.Module, name: str) -> ast.FunctionDef | None:
    return next((n for n in tree.body if isinstance(n, ast.FunctionDef) and n.name == name), None)


def extract_facts() -> dict[str, Any]:
    facts: dict[str, Any] = {
        l: ("AsgUnknown", "DsUnknown", "RetUnknown", "false") for l in G.LANGS
    } | {"order": "OrdUnknown", "copy": "false", "shape_ok": "false", "stoich_ok": "false", "printers_ok": "false",
         "ia": "IaUnknown", "untouched": "UtUnknown", "bind": "BkUnknown", "name": "NkUnknown", "zero_lit": "ZlUnknown"}
    try:
        tree = ast.parse((common.REPO / "src/mxlpy/meta/codegen_model.py").read_text())
        tools = ast.parse((common.REPO / "src/mxlpy/meta/sympy_tools.py").read_text())
    except (OSError, SyntaxError):
        return facts
    fn = _find(tree, "_generate_model_code")
    if fn is not None:
        st = _stmts(fn)
        ok = st[:2] == _PRE and len(st) > 3
        if ok and st[2] == _PARAM_PLAIN:
            facts["copy"] = "false"
        elif ok and st[2] in _PARAM_COPIES:
            facts["copy"] = "true"
        else:
            ok = False
        rest = st[3:]
        if ok and rest[:2] == _IA_BLOCK:
            facts["ia"], rest = "IaFrozen", rest[2:]
        elif ok:
            facts["ia"] = "IaDropped"
        ok = ok and rest[:5] == _MID
        rest = rest[5:]
        # the explicit zeros come right after the loop that writes the sums
        post_zero = _POST[:3] + [_ZERO_BLOCK] + _POST[3:]
        post_zero_printed = _POST[:3] + [_ZERO_BLOCK_PRINTED] + _POST[3:]
        for emit, kind in ((_EMIT_DECL, "OrdDecl"), (_EMIT_DEP, "OrdDep")):
            if ok and rest[: len(emit)] == emit and rest[len(emit) :] in (_POST, post_zero, post_zero_printed):
                facts["order"] = kind
                tail = rest[len(emit) :]
                facts["untouched"] = "UtDropped" if tail == _POST else "UtZero"
                # which TEXT the explicit zero is (coq/codegen/RustLit.v): the program's skeleton is the same
                facts["zero_lit"] = "ZlAbsent" if tail == _POST else ("ZlFloat" if tail == post_zero else "ZlPrinted")
                break
        else:
            ok = False
        wrappers_ok = True
        for lang in G.LANGS:
            w = _find(tree, f"generate_model_code_{lang}")
            if w is None:
                wrappers_ok = False
                continue
            kws: dict[str, ast.expr] = {}
            for node in ast.walk(w):
                if isinstance(node, ast.Call) and isinstance(node.func, ast.Name) and node.func.id == "_generate_model_code":
                    kws = {k.arg: k.value for k in node.keywords if k.arg}
            try:
                sized = ast.literal_eval(kws["sized"])
                vt, at, rt = (ast.literal_eval(kws[k]) for k in ("variables_template", "assignment_template", "return_template"))
            except (KeyError, ValueError):
                wrappers_ok = False
                continue
            text = "\n".join(_stmts(w))
            for key, hole in (("sized", "<S>"), ("variables_template", "<V>"), ("assignment_template", "<A>"), ("return_template", "<R>")):
                text = text.replace(f"{key}={ast.unparse(kws[key])}", f"{key}={hole}", 1)
            if text != _WRAPPER[lang] or not isinstance(sized, bool):
                wrappers_ok = False
                continue
            facts[lang] = (
                _ASG[lang].get(at, "AsgUnknown"),
                _DS[lang].get(vt, "DsUnknown"),
                _RET[lang].get(rt, "RetUnknown"),
                "true" if sized else "false",
            )
        facts["shape_ok"] = "true" if (ok and wrappers_ok) else "false"
    sfn = _find(tools, "stoichiometries_to_sympy")
    if sfn is not None and _stmts(sfn) == _STOICH:
        facts["stoich_ok"] = "true"
    pr_ok = True
    for name, printer in _PRINTERS.items():
        f = _find(tools, name)
        if f is None:
            pr_ok = False
            continue
        st = _stmts(f)
        if len(st) != 1 or not st[0].startswith(f"return cast(str, {printer}(expr"):
            pr_ok = False
    facts["printers_ok"] = "true" if pr_ok else "false"
    facts["bind"] = extract_bind_fact()
    facts["name"] = extract_name_fact()
    return facts


def gen() -> dict[str, Any]:
    f = extract_facts()
    lf = lambda t: f"(mkLF {t[0]} {t[1]} {t[2]} {t[3]})"  # noqa: E731
    text = (
        "(* REGENERATED from src/mxlpy/meta/codegen_model.py, sympy_tools.py and source_tools.py by harness/c07.py; do not edit.\n"
        "   An unrecognised shape yields a *Unknown constructor / false, which breaks C07_facts_pinned. *)\n"
        "From Codegen Require Import Codegen CallArity NameScope RustLit.\n"
        "Definition gen_codegen_facts : facts :=\n"
        f"  mkFacts {lf(f['py'])} {lf(f['ts'])}\n          {lf(f['rs'])} {lf(f['jl'])}\n"
        f"          {f['order']} {f['copy']} {f['shape_ok']} {f['stoich_ok']} {f['printers_ok']} {f['ia']} {f['untouched']}.\n"
        "(* the argument binding of src/mxlpy/meta/source_tools.py::fn_to_sympy *)\n"
        f"Definition gen_bind_fact : bind_kind := {f['bind']}.\n"
        "(* which table src/mxlpy/meta/source_tools.py::_handle_name consults first *)\n"
        f"Definition gen_name_fact : name_kind := {f['name']}.\n"
        "(* the text of the explicit zero of a variable no reaction acts on (_generate_model_code) *)\n"
        f"Definition gen_zero_lit : zero_lit := {f['zero_lit']}.\n"
    )
    common.write_if_changed(common.area_dir(AREA) / "GenCodegenFacts.v", text)
    return {k: (list(v) if isinstance(v, tuple) else v) for k, v in f.items()}


# ---------------------------------------------------------------------------------------
# implementation driver
# ---------------------------------------------------------------------------------------


class _Timeout(Exception):
    pass


def _alarm(signum, frame):  # noqa: ANN001, ARG001
    raise _Timeout


def _generators() -> dict[str, Any]:
    from mxlpy.meta import generate_model_code_jl, generate_model_code_py, generate_model_code_rs, generate_model_code_ts

    return {"py": generate_model_code_py, "ts": generate_model_code_ts, "rs": generate_model_code_rs, "jl": generate_model_code_jl}


def run_generator(desc: dict, lang: str, *, int_literals: bool = False) -> dict:
    """Build the real model, call the real generator (twice), observe everything the property and
    the model talk about."""
    out: dict[str, Any] = {"gen": None, "text": None, "order": [], "cache_after": [], "second": None}
    signal.signal(signal.SIGALRM, _alarm)
    signal.setitimer(signal.ITIMER_REAL, 20.0)
    try:
        m = G.build(desc, int_literals=int_literals)
        free = [G.nm(f) for f in desc["free"]] if desc["free"] else None
        try:
            out["order"] = [0 if n == "time" else int(n[1:]) for n in m._create_cache().order]  # noqa: SLF001
        except Exception as e:  # noqa: BLE001
            out["gen"] = ("model", f"{type(e).__name__}: {e}")
            return out
        gen = _generators()[lang]
        try:
            out["text"] = gen(m, free_parameters=free)
            out["gen"] = ("ok",)
        except _Timeout:
            raise
        except KeyError as e:
            out["gen"] = ("key", str(e))
        except ValueError as e:
            out["gen"] = ("untrans", str(e))
        except TypeError as e:
            out["gen"] = ("untranscoef", str(e))
        except Exception as e:  # noqa: BLE001
            out["gen"] = ("other", f"{type(e).__name__}: {e}")
        try:
            out["cache_after"] = [int(k[1:]) for k in m.get_parameter_values()]
        except Exception as e:  # noqa: BLE001
            out["cache_after"] = [-1]
            out["cache_err"] = f"{type(e).__name__}: {e}"
        # a second, identical request on the same model object
        try:
            t2 = gen(m, free_parameters=free)
            out["second"] = ("same",) if t2 == out["text"] else ("differs", t2)
        except _Timeout:
            raise
        except Exception as e:  # noqa: BLE001
            out["second"] = ("raised", type(e).__name__, str(e)[:100])
    except _Timeout:
        out["gen"] = ("other", "no answer within 20 s")
    finally:
        signal.setitimer(signal.ITIMER_REAL, 0)
    return out


def model_values(desc: dict, points: list[tuple]) -> list[list[Fraction] | None]:
    """What the REAL model returns (Model.__call__) with the free parameters set to the inputs."""
    res: list[list[Fraction] | None] = []
    try:
        m = G.build(desc)
    except Exception:  # noqa: BLE001
        return [None] * len(points)
    for t, y, fv in points:
        try:
            if desc["free"]:
                m.update_parameters({G.nm(k): float(v) for k, v in zip(desc["free"], fv)})
            v = m(float(t), [float(x) for x in y])
            res.append([common.to_fraction(x) for x in v])
        except Exception:  # noqa: BLE001
            res.append(None)
    return res


# ---------------------------------------------------------------------------------------
# independent oracle: the property itself
# ---------------------------------------------------------------------------------------


def judge(desc: dict, lang: str, obs: dict, execs: list[tuple] | None, refs: list[list[Fraction] | None]) -> str | None:
    """None if the property holds on this case, else what fails."""
    flags = G.shape_flags(desc)
    g = obs["gen"]
    if g[0] == "model":
        return None  # the model itself is rejected: nothing to generate
    if flags["untranslatable"]:
        if g[0] != "ok":
            return None
        if not flags["surplus_only"]:
            does = ""
            for o, ref in zip(execs or [], refs):
                if ref is not None and (o[0] != "ok" or list(o[1]) != list(ref)):
                    got = [str(x) for x in o[1]] if o[0] == "ok" else o[0]
                    does = f" (the emitted {lang} function gives {got}, the model {[str(x) for x in ref]})"
                    break
            return "a function that fn_to_sympy cannot translate did not make generation raise" + does
        # the only refused functions take *args and ignore them: were code emitted for them, it would
        # have to agree with the model like any other (judged below)
    if not flags["free_ok"]:
        return None if g[0] != "ok" else "free parameter that is not a plain parameter was accepted"
    if g[0] != "ok":
        return f"generation raised for a translatable model: {g}"
    if obs["second"] is not None and obs["second"][0] != "same":
        return f"the same request on the same model a second time: {obs['second'][:3]}"
    plain = [n for n, _v, ia in desc["par"] if ia is None]
    if obs["cache_after"] != plain:
        return f"get_parameter_values() after generation lists {obs['cache_after']}, the model has {plain}"
    n = flags["n_var"]
    for o, ref in zip(execs or [], refs):
        if ref is None:
            return "the real model raised on this state"
        if o[0] != "ok":
            return f"executing the {lang} text: {o[0]}{(' ' + str(o[1])[:120]) if len(o) > 1 else ''} (expected {n} derivatives)"
        if len(o[1]) != n:
            return f"the {lang} function returns {len(o[1])} values for {n} variables"
        if list(o[1]) != list(ref):
            return f"the {lang} function returns {[str(x) for x in o[1]]}, the model {[str(x) for x in ref]}"
    return None


KNOWN_IDS: set[str] = set()  # ids of the findings recorded for C07 right now (filled by check / replay)


def zero_line_literals(desc: dict, ex0: tuple | None) -> list[str]:
    """Rust lines rustc rejects for an integer literal that are the EXPLICIT derivative line of a
    variable no reaction acts on (`let d<x>dt: f64 = <integer>;`).  That line holds no translated
    function, no SymPy sum and no parameter value -- the generator writes the number itself -- so the
    recorded finding rs-integer-literal (integers SymPy leaves in translated expressions, Python-int
    parameter values) does not cover it."""
    if not ex0 or ex0[0] != "intlit" or len(ex0) < 3:
        return []
    unc = {G.nm(v) for v in G.shape_flags(desc)["uncovered"]}
    out = []
    for ln in ex0[2]:
        m = re.fullmatch(r"let d(n\d{4})dt: f64 = [-+]?\d+;", ln)
        if m and m.group(1) in unc:
            out.append(ln)
    return out


def finding_for(desc: dict, lang: str, exec_class: str | None = None, ex0: tuple | None = None) -> str | None:
    """The RECORDED finding whose guard contains this case (None: the case is inside the guards of
    C07_equiv_partial, or its finding is no longer recorded -- e.g. moved to "fixed" by
    tools/c07_switch.py: a violation there is a VIOLATION)."""
    f = G.shape_flags(desc)
    cands = []
    if lang == "jl":
        cands.append("jl-template")
    if f["n_var"] == 0:
        cands.append("no-variables-unit-return")  # `()` wrapped by the return template: `[()]`
    elif f["no_equation"]:
        cands.append("no-equation-unit-return")  # variables, but diff_eqs is empty: `[()]` again
    elif f["uncovered"]:
        cands.append("variable-without-reaction")
    if f["has_ia"]:
        cands.append("assigned-parameter-not-emitted")
        if f["free_feeds_ia"]:
            cands.append("assigned-parameter-reads-free-parameter")  # the emitted value is the one at generation time
    if lang == "rs" and exec_class == "intlit" and not zero_line_literals(desc, ex0):
        cands.append("rs-integer-literal")
    if f["empty_call_only"]:
        # generation does not raise for a call that passes no argument to a function whose parameters
        # all have defaults (the binding is skipped); comes first: that is what the oracle reports there
        cands.insert(0, "defaulted-parameters-no-arguments")
    return next((c for c in cands if c in KNOWN_IDS), None)


# ---------------------------------------------------------------------------------------
# (de)serialisation of cases for replays
# ---------------------------------------------------------------------------------------


def _fr(x: Any) -> str:
    return str(Fraction(x))


def desc_to_json(d: dict) -> dict:
    return {
        "par": [[n, _fr(v), None if ia is None else [ia[0], list(ia[1])]] for n, v, ia in d["par"]],
        "var": [[n, _fr(v)] for n, v in d["var"]],
        "der": [[n, f, list(a)] for n, f, a in d["der"]],
        "rxn": [[n, f, list(a), [[c, [cf[0], _fr(cf[1])] if cf[0] == "stat" else [cf[0], cf[1], list(cf[2])]] for c, cf in st]] for n, f, a, st in d["rxn"]],
        "free": list(d["free"]),
    }


def desc_from_json(j: dict) -> dict:
    return {
        "par": [(n, Fraction(v), None if ia is None else (ia[0], list(ia[1]))) for n, v, ia in j["par"]],
        "var": [(n, Fraction(v)) for n, v in j["var"]],
        "der": [(n, f, list(a)) for n, f, a in j["der"]],
        "rxn": [
            (n, f, list(a), [(c, ("stat", Fraction(cf[1])) if cf[0] == "stat" else ("dyn", cf[1], list(cf[2]))) for c, cf in st])
            for n, f, a, st in j["rxn"]
        ],
        "free": list(j["free"]),
    }


def points_to_json(pts: list[tuple]) -> list:
    return [[_fr(t), [_fr(v) for v in y], [_fr(v) for v in fv]] for t, y, fv in pts]


def points_from_json(j: list) -> list[tuple]:
    return [(Fraction(t), [Fraction(v) for v in y], [Fraction(v) for v in fv]) for t, y, fv in j]


def _fids(desc: dict) -> list[int]:
    out = [f for _n, f, _a in desc["der"]] + [f for _n, f, _a, _s in desc["rxn"]]
    return out + [cf[1] for _n, _f, _a, st in desc["rxn"] for _c, cf in st if cf[0] == "dyn"]


def describe(desc: dict) -> str:
    """Readable rendering of a description (goes into the violation line / replay)."""
    parts = []
    for n, v, ia in desc["par"]:
        parts.append(f"par {G.nm(n)}={v}" if ia is None else f"par {G.nm(n)}:=IA {FN.FNS[ia[0]].__name__}({','.join(map(G.nm, ia[1]))})")
    parts.append("vars " + ",".join(G.nm(n) for n, _ in desc["var"]))
    for n, f, a in desc["der"]:
        parts.append(f"der {G.nm(n)}={FN.FNS[f].__name__}({','.join(map(G.nm, a))})")
    for n, f, a, st in desc["rxn"]:
        s = ",".join(f"{G.nm(c)}:{cf[1] if cf[0] == 'stat' else FN.FNS[cf[1]].__name__ + '(' + ','.join(map(G.nm, cf[2])) + ')'}" for c, cf in st)
        parts.append(f"rxn {G.nm(n)}={FN.FNS[f].__name__}({','.join(map(G.nm, a))}) {{{s}}}")
    if desc["free"]:
        parts.append("free " + ",".join(map(G.nm, desc["free"])))
    return "; ".join(parts)


# ---------------------------------------------------------------------------------------
# correspondence
# ---------------------------------------------------------------------------------------


def coq_case(desc: dict, lang: str, obs: dict, sk: dict | None, points: list[tuple], refs, execs, skip_exec: bool) -> str:
    g = obs["gen"][0]
    if g == "ok" and sk is not None:
        gobs = f"(ObsOk {G.coq_skeleton(sk)})"
    else:
        gobs = {"key": "ObsKey", "untrans": "ObsUntrans", "untranscoef": "ObsUntransCoef"}.get(g, "ObsOther")
        if translation_keyerror(desc, obs):
            gobs = "ObsUntransKey"
    pts = []
    for i, (t, y, fv) in enumerate(points):
        ex = None if (skip_exec or execs is None) else execs[i]
        pts.append(f"mkPt {cq(t)} {clist(map(cq, y))} {clist(map(cq, fv))} {G.coq_optlist(refs[i])} {G.coq_outcome(ex)}")
    # the specification is only defined for requests the generator accepts
    if g in ("key",) or not G.shape_flags(desc)["free_ok"]:
        pts = []
    cache = clist(cn(k) for k in obs["cache_after"]) if all(k >= 0 for k in obs["cache_after"]) else "[9999%N]"
    return (
        f"mkCase {G.COQ_LANG[lang]} {G.coq_model(desc)} {clist(map(cn, obs['order']))} {clist(map(cn, desc['free']))}\n"
        f"    {gobs} {cache} {second_obs(obs, desc)}\n    {clist(pts)}"
    )


def translation_keyerror(desc: dict, obs: dict) -> bool:
    """generation raised a KeyError although every requested free parameter exists and the model has
    a function with a keyword-only parameter: the KeyError of fn_to_sympy's global-name lookup (for a
    derived quantity / a coefficient it leaves generate_model_code_* as it is) -- a refusal whose
    exception class the Coq model does not describe"""
    fl = G.shape_flags(desc)
    return obs["gen"][0] == "key" and fl["free_ok"] and fl["keyerror_refusal"]


def second_obs(obs: dict, desc: dict | None = None) -> str:
    """The same request a second time, as the model's vocabulary: the same answer as the first
    time (same text, or the same refusal) / KeyError / anything else (never matches the model)."""
    sec, g = obs.get("second"), obs["gen"][0]
    if sec is None:
        return "SecOther"
    if sec[0] == "same":
        return "SecSame"
    if sec[0] == "raised":
        if sec[1] == "KeyError":
            if desc is not None and translation_keyerror(desc, obs):
                return "SecSame"  # the same refusal again
            return "SecKey"
        if (sec[1], g) in (("ValueError", "untrans"), ("TypeError", "untranscoef")):
            return "SecSame"
    return "SecOther"


def corr_file(cases: list[str]) -> str:
    defs = "\n".join(f"Definition case_{i} : ccase := {c}." for i, c in enumerate(cases))
    names = "; ".join(f"case_{i}" for i in range(len(cases)))
    return (
        "From Coq Require Import List NArith ZArith QArith.\nFrom MxlBase Require Import ListX.\n"
        "From Codegen Require Import Codegen CodegenSpec CallArity GenCodegenFacts CgInst.\nImport ListNotations.\nOpen Scope Q_scope.\n"
        + defs
        + f"\nDefinition cases : list ccase := [{names}].\n"
        "Definition mismatches := mismatches_of gen_bind_fact gen_codegen_facts cases.\nEval vm_compute in mismatches.\n"
    )


ASPECT = {1: "generated program (skeleton read back from the text)", 2: "cached parameter dict after the call", 3: "specification vs values of the real model", 4: "outcome of executing the text", 5: "the same request a second time"}

# ---------------------------------------------------------------------------------------
# the check
# ---------------------------------------------------------------------------------------


def _corpus() -> list[dict]:
    """Hand-made descriptions that run first on every run: the shapes behind each recorded
    finding and each proposed repair."""
    F = Fraction
    out = []
    # out-of-order derived, derived reading a reaction, fractional + computed coefficients
    out.append({"par": [(11, F(2), None)], "var": [(12, F(1)), (13, F(2))],
                "der": [(15, 6, [14]), (14, 2, [12, 11]), (18, 4, [16, 0])],
                "rxn": [(17, 4, [18, 11], [(13, ("stat", F(1)))]), (16, 4, [15, 13], [(12, ("stat", F(-1))), (13, ("dyn", 2, [11, 12]))])],
                "free": []})
    # the same with a free parameter
    out.append({**out[0], "free": [11]})
    # two free parameters, requested in the opposite order of declaration
    out.append({"par": [(11, F(2), None), (12, F(3), None)], "var": [(13, F(1)), (14, F(1))], "der": [],
                "rxn": [(15, 9, [13, 14, 11], [(13, ("stat", F(-1))), (14, ("stat", F(1, 2)))]), (16, 4, [12, 14], [(14, ("stat", F(-1)))])],
                "free": [12, 11]})
    # conditionals
    out.append({"par": [(11, F(2), None)], "var": [(12, F(1)), (13, F(1))], "der": [(14, 11, [12, 11]), (15, 15, [13, 11, 14])],
                "rxn": [(16, 12, [15], [(12, ("stat", F(-1))), (13, ("stat", F(1)))]), (17, 13, [12, 13], [(13, ("stat", F(2)))])], "free": []})
    # one variable (the Python templates bound the whole vector / returned a bare number)
    out.append({"par": [(11, F(2), None)], "var": [(12, F(1))], "der": [],
                "rxn": [(13, 4, [11, 12], [(12, ("stat", F(-1)))])], "free": []})
    # declared in dependency order, one free parameter (the cached parameter dict was popped)
    out.append({"par": [(11, F(2), None)], "var": [(12, F(1)), (13, F(2))], "der": [(14, 2, [12, 11])],
                "rxn": [(15, 4, [14, 13], [(12, ("stat", F(-1))), (13, ("stat", F(1)))])], "free": [11]})
    # an untranslatable function in a computed coefficient (TypeError) and in a reaction (ValueError)
    out.append({"par": [(11, F(2), None)], "var": [(12, F(1)), (13, F(2))], "der": [],
                "rxn": [(14, 4, [11, 12], [(12, ("stat", F(-1))), (13, ("dyn", 16, [11]))])], "free": []})
    out.append({"par": [(11, F(2), None)], "var": [(12, F(1)), (13, F(2))], "der": [],
                "rxn": [(14, 17, [11, 12], [(12, ("stat", F(-1))), (13, ("stat", F(1)))])], "free": [11]})
    # an assignment-defined parameter AND a variable no reaction acts on (the two proposed repairs)
    out.append({"par": [(11, F(2), None), (12, F(4), (6, [11]))], "var": [(13, F(1)), (14, F(1))], "der": [],
                "rxn": [(15, 4, [12, 13], [(13, ("stat", F(-1)))])], "free": []})
    # the assignment-defined parameter requested as a free parameter (KeyError before the repair)
    out.append({**out[-1], "free": [12]})
    # an untouched variable between two touched ones, a second key of diff_eqs first mentioned later
    out.append({"par": [(11, F(2), None)], "var": [(12, F(1)), (13, F(1)), (14, F(2))], "der": [],
                "rxn": [(15, 4, [11, 14], [(14, ("stat", F(-1)))]), (16, 4, [11, 12], [(12, ("stat", F(1, 2)))])], "free": [11]})
    # variables but no reaction acting on anything (`[()]`)
    out.append({"par": [(11, F(2), None)], "var": [(12, F(1))], "der": [(13, 4, [11, 12])], "rxn": [], "free": []})
    # a free parameter that reaches the right-hand side only through a parameter-only coefficient
    out.append({"par": [(11, F(2), None), (12, F(3), None)], "var": [(13, F(1))], "der": [],
                "rxn": [(14, 0, [13], [(13, ("dyn", 4, [11, 12]))])], "free": [11]})
    return out


def _corpus_closing() -> list[tuple[dict, list[tuple]]]:
    """Later corpus entries come WITH their states (they draw nothing from the run's random stream, so
    the random models of a seed stay what they were)."""
    F = Fraction
    out = []
    # module-level float constants (harness/c07_fns.py: c_half = 0.5, c_gain = 4.0): one rate reads them as
    # globals, another has a PARAMETER called c_half fed with a model parameter (free, called off its stored
    # value), a derived quantity a LOCAL called c_half, a rate rebinding its parameter c_gain, a computed
    # coefficient whose helper's parameter shadows c_gain  (the shape of seeded change C07-8)
    d = {"par": [(11, F(3), None), (12, F(3, 2), None)], "var": [(13, F(1)), (14, F(1, 2))],
         "der": [(19, 40, [13, 12])],
         "rxn": [(20, 38, [13], [(13, ("stat", F(-1))), (14, ("stat", F(1)))]),
                 (21, 39, [14, 11], [(14, ("stat", F(-1)))]),
                 (22, 41, [19, 11], [(13, ("dyn", 42, [12, 11]))])],
         "free": [11]}
    out.append((d, [(F(0), [F(2), F(3)], [F(5)]), (F(1), [F(1), F(-1, 2)], [F(-2)]), (F(2), [F(-3), F(1)], [F(3)])]))
    out.append(({**d, "free": []}, [(F(0), [F(2), F(3)], []), (F(1), [F(1), F(-1, 2)], [])]))
    # an enzyme pool that only enters the kinetics, declared BETWEEN two variables reactions act on: its
    # derivative is the explicit zero the generator writes itself (the shape of seeded change C07-9;
    # compiled with rustc in either tier)
    e = {"par": [(11, F(2), None), (12, F(1, 2), None)], "var": [(13, F(1)), (14, F(1, 2)), (15, F(1, 4))], "der": [],
         "rxn": [(16, 9, [13, 14, 11], [(13, ("stat", F(-1))), (15, ("stat", F(2)))]),
                 (17, 4, [15, 12], [(15, ("stat", F(-1)))])],
         "free": []}
    out.append((e, [(F(0), [F(1), F(1, 2), F(1, 4)], []), (F(3), [F(3), F(-2), F(1, 2)], [])]))
    out.append(({**e, "free": [12]}, [(F(0), [F(1), F(1, 2), F(1, 4)], [F(3)]), (F(3), [F(3), F(-2), F(1, 2)], [F(-1)])]))
    return out


def _exec_all(texts: list[tuple[int, str, str, list[tuple]]], work) -> tuple[dict[int, list[tuple]], dict]:
    """texts: (case index, lang, text, points) -> outcomes per case index."""
    res: dict[int, list[tuple]] = {}
    stats: dict[str, Any] = {}
    ts_jobs = [(i, t, p) for i, l, t, p in texts if l == "ts"]
    rs_jobs = [(i, t, p) for i, l, t, p in texts if l == "rs"]
    for i, l, t, p in texts:
        if l == "py":
            res[i] = X.run_py(t, p)
        elif l == "jl":
            res[i] = X.run_jl(t, p)
    for chunk in common.chunks(ts_jobs, 400):
        outs = X.run_ts_batch([(t, p) for _i, t, p in chunk], work / "ts")
        for (i, _t, _p), o in zip(chunk, outs):
            res[i] = o
    if rs_jobs:
        outs, st = X.run_rs_batch([(t, p) for _i, t, p in rs_jobs], work / "rs")
        stats.update(st)
        for (i, _t, _p), o in zip(rs_jobs, outs):
            res[i] = o
    return res, stats


def evaluate_case(desc: dict, lang: str, points: list[tuple], work, *, int_literals: bool = False) -> dict:
    """One case end to end (used by replay and by the known-finding witnesses)."""
    obs = run_generator(desc, lang, int_literals=int_literals)
    refs = model_values(desc, points)
    execs = None
    if obs["gen"] == ("ok",):
        r, _ = _exec_all([(0, lang, obs["text"], points)], work)
        execs = r[0]
    return {"obs": obs, "refs": refs, "execs": execs, "bad": judge(desc, lang, obs, execs, refs)}


def check(run: Run) -> None:
    thorough = run.tier == "thorough"
    facts = gen()
    run.coverage["gen_facts"] = facts
    # the oracle's notion of "inside a recorded finding" follows the tree under test
    G.IA_FROZEN = facts["ia"] == "IaFrozen"
    G.UT_ZERO = facts["untouched"] == "UtZero"
    KNOWN_IDS.clear()
    KNOWN_IDS.update(f["id"] for f in common.load_known_findings("C07"))
    run.rule = (
        "corpus (incl. rate laws whose parameter / local is called like a float constant of their module, fed with a free parameter "
        "off its stored value; an enzyme pool no reaction acts on -- the corpus also compiled with rustc in the quick tier) "
        "+ function-table sweep (every translatable function as rate / derived quantity / computed coefficient over "
        "free parameters, evaluated on both sides of every condition of its source) + refusal sweep (every untranslatable "
        "function of the table, incl. the ten refused by arity -- default values relied on, keyword-only parameters, *args, "
        "empty argument lists --, as rate / derived quantity / coefficient, with and without a model component named like the "
        "helper's defaulted parameter) + random surrogate-free models (1-3 "
        "parameters incl. assignment-defined ones, 0-3 variables, 1-7 derived/reactions in random declaration order, derived "
        "reading reactions, integer/fractional/computed coefficients incl. parameter-only ones with a free parameter called "
        "off its stored value, conditionals in return position and branch-local reassignment of locals, untranslatable "
        "functions, free parameters in any order) x languages x >= 3 states (integers and halves); a case is non-trivial if "
        "it has a reaction and generation succeeds or is refused; distinct by content"
    )
    proofs_ok = run.check_proofs(AREA, PROPS)
    run.assumptions += [
        "Coq 8.16.1 kernel + vm_compute; all 42 statements of PropsC07.v closed under the global context (see trusted_base)",
        "coq/codegen/ExpectedFacts.v (hand-maintained, tools/c07_switch.py): which form of the two places with a proposed, not yet applied repair (assignment-defined parameters, variables without a reaction) the regenerated facts are pinned to; the recorded findings list decides which failures are counted instead of reported",
        "hypothesis C06 of C07_equiv_partial: per-function translation soundness (property C06) -- the inlined target expression of a translated function has the value of the Python function; fn_to_sympy, SymPy's simplifier and its py/js/rust/julia printers are covered by that hypothesis, not verified (validated on every case by executing the emitted text)",
        "hypothesis ValidOrder: the order read from the model's cache lists every derived quantity/reaction after what it reads (what C02 proves of the sorter); Resolved is the specification of 'what the model returns' (C01), compared with Model.__call__ on every case (aspect 3 of the correspondence)",
        "guards of C07_equiv_partial = complement of the recorded findings: L <> Julia, at least one variable, every variable acted on by a reaction (or: the tree writes the explicit zero and some reaction acts on something), no assignment-defined parameter (or: the tree emits them with the value the model holds -- then their value is taken as given: an assignment that reads a requested free parameter is outside the Coq model and never generated); unique parameter names (dict keys)",
        "function table harness/c07_fns.py mirrored by hand in coq/codegen/CgInst.v (fsemQ/translatesQ); aspect 3 of the correspondence (specification vs Model.__call__) compares the two tables on every case, the sweep on both sides of every condition of every function",
        "binding model coq/codegen/CallArity.v: covers the argument-binding statement of fn_to_sympy only (bodies: + - * over names and numbers, at most one helper call); tied by extract_bind_fact (fn_to_sympy's try-body and handler, _handle_name, head/tail of _handle_call; fail-closed) and by the arity correspondence harness/c07_arity.py, which regenerates the functions' descriptions from their Python source and runs the REAL fn_to_sympy; coq/codegen/ExpectedFacts.v::C07_expected_bind (hand-maintained, tools/c07_switch.py bind) says which form the tree has; a refusal through KeyError (keyword-only parameter) is observed as ObsUntransKey: the exception class of that refusal is not modelled",
        "fact extractor harness/c07.py::extract_facts (fail-closed ast matcher, whole-function normalised comparison); skeleton reader harness/c07_exec.py",
        "executors: CPython exec, node (type annotations stripped by a regex), rustc (the corpus in either tier, every model in the thorough tier; rejected programs are classified from the error codes and the source line of each error), a Julia-SUBSET interpreter written for this check (Julia is not installed)",
        "name-resolution model coq/codegen/NameScope.v: straight-line bodies (assignments, return; + - * over names and numbers), all parameters positional and required, the module's FLOAT constants; tied by extract_name_fact (the whole body of _handle_name, fail-closed) and by the scope correspondence harness/c07_scope.py, which regenerates the descriptions from the Python source and runs the REAL fn_to_sympy; conditionals, helper calls and everything else fn_to_sympy does stay behind hypothesis C06 (validated by executing the emitted text of every table function)",
        "explicit-zero model coq/codegen/RustLit.v: float vs integer token bound to an f64, for the ONE number the generator writes itself (regenerated fact gen_zero_lit); every other number of a Rust text is outside the model (recorded finding rs-integer-literal) -- the oracle tells the two apart by the source line rustc reports",
        "floating point: all generated values are small dyadic rationals and the functions polynomial/piecewise linear, so binary64 evaluation is exact; rounding is outside the model",
        "custom_fns overrides and surrogates are not modelled (the generator only warns about surrogates); Rust integer literals are outside the one-numeric-type model (recorded finding, oracle only)",
    ]
    if facts != {k: (list(v) if isinstance(v, tuple) else v) for k, v in (EXPECTED_FACTS | _expected_switch()).items()}:
        run.note(f"extracted facts differ from the pinned ones: {facts}")

    rng = common.rng_for(run.seed, "c07")
    langs = ("py", "ts", "rs", "jl") if thorough else ("py", "ts", "jl")
    n_models = 700 if thorough else 130
    descs: list = list(_corpus()) + _corpus_closing()
    n_corpus = len(descs)
    # every translatable function of the table on both sides of every condition of its source
    # (own random stream: the sweep does not disturb the models drawn below)
    sweep, sweep_stats = G.sweep_cases(common.rng_for(run.seed, "c07-sweep"))
    run.coverage["function_table_sweep"] = sweep_stats
    descs += sweep
    # every function fn_to_sympy has to refuse, in every position, with and without a model component
    # named like the helpers' defaulted parameter
    refusal, refusal_stats = G.refusal_sweep_cases()
    run.coverage["refusal_sweep"] = refusal_stats
    descs += refusal
    for i in range(n_models):
        descs.append(G.gen_desc(rng, profile="clean" if i % 3 == 0 else None))
    work = common.scratch_dir("c07")
    try:
        # the corpus is compiled with rustc in the quick tier as well (one small crate)
        _check_body(run, rng, descs, langs, work, proofs_ok, rs_first=n_corpus)
    finally:
        shutil.rmtree(work, ignore_errors=True)


def _check_body(run: Run, rng, descs: list[dict], langs, work, proofs_ok: bool, rs_first: int = 0) -> None:
    cases: list[dict] = []
    discarded = 0
    for k_item, item in enumerate(descs):
        # a description, or (description, the states to evaluate it at)
        desc, points = item if isinstance(item, tuple) else (item, None)
        if points is None:
            points = G.gen_points(rng, desc)
        try:
            indep = [G.evaluate(desc, t, y, fv) for t, y, fv in points] if G.shape_flags(desc)["free_ok"] else None
        except G.Unbounded:
            discarded += 1
            continue
        refs = model_values(desc, points) if G.shape_flags(desc)["free_ok"] else [None] * len(points)
        for lang in (*langs, *(("rs",) if "rs" not in langs and k_item < rs_first else ())):
            cases.append({"desc": desc, "lang": lang, "points": points, "refs": refs, "indep": indep})
    for c in cases:
        c["obs"] = run_generator(c["desc"], c["lang"])
    texts = [(i, c["lang"], c["obs"]["text"], c["points"]) for i, c in enumerate(cases) if c["obs"]["gen"] == ("ok",)]
    execs, stats = _exec_all(texts, work)
    run.coverage["executor_stats"] = stats

    dist: dict[str, int] = {}
    find_hits: dict[str, int] = {}
    coq_cases: list[str] = []
    n_viol = 0
    seen_kinds: set[str] = set()
    indep_disagree = 0
    for i, c in enumerate(cases):
        desc, lang, obs = c["desc"], c["lang"], c["obs"]
        ex = execs.get(i)
        flags = G.shape_flags(desc)
        key = f"{lang}:{obs['gen'][0]}"
        dist[key] = dist.get(key, 0) + 1
        for fl in ("has_ia", "untranslatable", "declared_in_order"):
            if flags[fl]:
                dist[fl] = dist.get(fl, 0) + 1
        if flags["uncovered"]:
            dist["has_uncovered_variable"] = dist.get("has_uncovered_variable", 0) + 1
        if any(cf[0] == "dyn" for _n, _f, _a, st in desc["rxn"] for _c, cf in st):
            dist["computed_coefficient"] = dist.get("computed_coefficient", 0) + 1
        if desc["free"]:
            dist["free_parameters"] = dist.get("free_parameters", 0) + 1
        if G.free_reaches_coefficient(desc) and any(
            fv != [v for f in desc["free"] for n, v, _ia in desc["par"] if n == f] for _t, _y, fv in c["points"]
        ):
            dist["free_parameter_in_parameter_only_coefficient_called_off_stored_value"] = (
                dist.get("free_parameter_in_parameter_only_coefficient_called_off_stored_value", 0) + 1)
        if any(f in FN.BY_ARITY_REFUSED for f in _fids(desc)):
            dist["function_refused_by_arity"] = dist.get("function_refused_by_arity", 0) + 1
        if any(f in FN.LOCAL_ASSIGNMENT for f in _fids(desc)):
            dist["function_with_local_reassignment"] = dist.get("function_with_local_reassignment", 0) + 1
        dist[f"n_var={flags['n_var']}"] = dist.get(f"n_var={flags['n_var']}", 0) + 1
        run.count_case((G.coq_model(desc), lang, desc["free"]), nontrivial=bool(desc["rxn"]) and obs["gen"][0] in ("ok", "untrans", "untranscoef"))
        if c["indep"] is not None and any(r is not None and r != e for r, e in zip(c["refs"], c["indep"])):
            indep_disagree += 1
        # the property itself
        bad = judge(desc, lang, obs, ex, c["refs"])
        ex_class = ex[0][0] if ex else None
        if ex:
            dist[f"exec:{lang}:{ex_class}"] = dist.get(f"exec:{lang}:{ex_class}", 0) + 1
        if bad:
            fid = finding_for(desc, lang, ex_class, ex[0] if ex else None)
            zl = zero_line_literals(desc, ex[0] if ex else None)
            if zl:
                bad += f" -- the explicit zero of a variable no reaction acts on is an integer literal: {zl[0]!r}"
            if fid is not None:
                find_hits[fid] = find_hits.get(fid, 0) + 1
            elif (kind := re.sub(r"\d+", "", re.sub(r"\b(py|ts|rs|jl)\b", "L", bad))[:48]) not in seen_kinds and n_viol < 6:
                # one concrete failing input per kind of failure (not one per language)
                seen_kinds.add(kind)
                n_viol += 1
                run.violation(
                    f"generate_model_code_{lang}: {bad} -- model: {describe(desc)}",
                    {"kind": "case", "lang": lang, "desc": desc_to_json(desc), "points": points_to_json(c["points"]),
                     "text": obs["text"], "what": bad},
                )
        # correspondence
        sk = None
        if obs["gen"] == ("ok",):
            try:
                sk = X.read_skeleton(lang, obs["text"])
            except ValueError as e:
                sk = None
                if len(run.broken_correspondence) < 5:
                    run.broken_correspondence.append(f"emitted {lang} text is not of a shape the generator is modelled to emit ({e}): {obs['text'][:200]!r}")
        # value-level outcomes outside the model: the whole vector bound to one name; integer literals in Rust
        skip_exec = (sk is not None and sk["ds"] == "DsBare" and len(sk["vars"]) == 1) or ex_class == "intlit"
        # Rust, overlap of two recorded findings: a text that reads an undeclared name (assignment-defined parameter)
        # AND is ill-typed (`[()]`, a return list shorter than [f64; n]) gets E0425 and/or E0308 depending on which
        # diagnostics rustc suppresses -- which of the two failure classes it is, is not modelled
        if lang == "rs" and ex_class in ("unbound", "illformed") and flags["has_ia"] and (
            flags["n_var"] == 0 or flags["uncovered"] or flags["no_equation"]
        ):
            skip_exec = True
        # a text emitted although the function had to be refused (empty argument list, recorded finding):
        # it reads a name that is no argument of the inlined function -- outside the model's `exec`
        # (the same for any text emitted for a function refused by arity, should a changed tree emit one)
        if flags["empty_call"] or any(f in FN.BY_ARITY_REFUSED for f in _fids(desc)):
            skip_exec = True
        coq_cases.append(coq_case(desc, lang, obs, sk, c["points"], c["refs"], ex, skip_exec))
        if len(run.samples) < 3 and obs["gen"] == ("ok",) and flags["n_var"] >= 2 and not bad:
            run.sample({"lang": lang, "model": describe(desc), "text": obs["text"], "state": points_to_json(c["points"][:1]),
                        "returned": [str(x) for x in ex[0][1]] if ex and ex[0][0] == "ok" else str(ex[0] if ex else None)})
    run.coverage["input_distribution"] = dict(sorted(dist.items()))
    run.coverage["discarded_out_of_exact_range"] = discarded
    run.coverage["cases_inside_recorded_findings"] = find_hits
    run.coverage["independent_evaluator_disagrees_with_real_model"] = indep_disagree
    if indep_disagree:
        run.note(f"{indep_disagree} case(s): the independent evaluator and Model.__call__ disagree (a C01 matter; visible here as aspect 3)")

    files = {f"c07_{k:04d}": corr_file(chunk) for k, chunk in enumerate(common.chunks(coq_cases, 150))}
    res = common.coq_eval_many(AREA, files, timeout_s=900)
    mism = 0
    for k, name in enumerate(sorted(files)):
        ok, out = res[name]
        lists = common.parse_eval_list(out) if ok else None
        if not ok or not lists:
            run.broken_correspondence.append(f"correspondence shard {name} did not evaluate: {out[-300:]}")
            continue
        for code in lists[-1]:
            mism += 1
            j, aspect = divmod(code, 8)
            c = cases[k * 150 + j]
            if len(run.broken_correspondence) < 6:
                run.broken_correspondence.append(
                    f"model/implementation disagree on {ASPECT.get(aspect, aspect)} for {c['lang']} case #{k * 150 + j}: "
                    f"{describe(c['desc'])} | gen={c['obs']['gen']} exec={execs.get(k * 150 + j)} refs={[[str(x) for x in r] if r else None for r in c['refs']]} "
                    f"text={c['obs']['text']!r}"
                )
    run.coverage["traces_validated_against_impl"] = len(cases) - mism
    run.coverage["correspondence_mismatches"] = mism
    _arity_correspondence(run)
    _scope_correspondence(run)

    # known findings: replay every witness
    for f in common.load_known_findings("C07"):
        w = f["witness"]
        try:
            r = evaluate_case(desc_from_json(w["desc"]), w["lang"], points_from_json(w["points"]), work, int_literals=bool(w.get("int_literals")))
            if r["bad"]:
                run.known(f["id"], f"{f['what_fails']} [{r['bad'][:160]}]")
            else:
                run.note(f"known finding {f['id']} no longer reproduces")
        except Exception as e:  # noqa: BLE001
            run.note(f"known finding {f['id']}: witness could not be replayed: {type(e).__name__}: {e}")
    if not proofs_ok:
        run.note("proof obligations broken; the generated models were searched with the oracle for a concrete failing input")


def _arity_correspondence(run: Run) -> None:
    """the model of fn_to_sympy's argument binding (coq/codegen/CallArity.v) against the real
    fn_to_sympy: harness/c07_arity.py"""
    try:
        terms, info = A.cases()
    except ValueError as e:
        run.broken_correspondence.append(f"arity correspondence: a function of harness/c07_fns.py is not of the described shape: {e}")
        return
    res = common.coq_eval_many(AREA, {"c07_arity": A.corr_file(terms)}, timeout_s=600)
    ok, out = res["c07_arity"]
    lists = common.parse_eval_list(out) if ok else None
    if not ok or lists is None or not lists:
        run.broken_correspondence.append(f"arity correspondence did not evaluate: {out[-300:]}")
        return
    for codev in lists[-1]:
        j, aspect = divmod(codev, 8)
        if len(run.broken_correspondence) < 8:
            run.broken_correspondence.append(
                f"binding model and fn_to_sympy disagree on {A.ASPECT.get(aspect, aspect)}: {info[j]}")
    run.coverage["arity_correspondence"] = {
        "cases": len(terms), "mismatches": len(lists[-1]),
        "refused": sum(1 for i in info if i["fn_to_sympy"] != "expression"),
        "accepted_with_a_parameter_left_behind": [f"{i['fn']}/{i['model_arguments']}: {i['text']}" for i in info
                                                  if i["fn_to_sympy"] == "expression" and any(k < 9000 or k > 9100 for k in i["free_symbols"])],
    }


def _scope_correspondence(run: Run) -> None:
    """the model of fn_to_sympy's name resolution (coq/codegen/NameScope.v) against the real
    fn_to_sympy: harness/c07_scope.py"""
    try:
        terms, info = S.cases()
    except ValueError as e:
        run.broken_correspondence.append(f"scope correspondence: a function of harness/c07_fns.py is not of the described shape: {e}")
        return
    res = common.coq_eval_many(AREA, {"c07_scope": S.corr_file(terms)}, timeout_s=600)
    ok, out = res["c07_scope"]
    lists = common.parse_eval_list(out) if ok else None
    if not ok or lists is None or not lists:
        run.broken_correspondence.append(f"scope correspondence did not evaluate: {out[-300:]}")
        return
    for codev in lists[-1]:
        j, aspect = divmod(codev, 8)
        if len(run.broken_correspondence) < 8:
            run.broken_correspondence.append(
                f"name-resolution model and fn_to_sympy disagree on {S.ASPECT.get(aspect, aspect)}: {info[j]}")
    run.coverage["scope_correspondence"] = {
        "cases": len(terms), "mismatches": len(lists[-1]),
        "refused": sum(1 for i in info if i["fn_to_sympy"] != "expression"),
        "translated_where_cpython_raises": [i["fn"] for i in info if i["fn_to_sympy"] == "expression" and all(p is None for p in i["python"])],
    }


def replay(rep: dict) -> int:
    r = rep["replay"]
    if r.get("kind") != "case":
        print("nothing to replay:", rep.get("what"))
        return 1
    common.quiet_impl_logging()
    facts = extract_facts()
    G.IA_FROZEN = facts["ia"] == "IaFrozen"
    G.UT_ZERO = facts["untouched"] == "UtZero"
    KNOWN_IDS.clear()
    KNOWN_IDS.update(f["id"] for f in common.load_known_findings("C07"))
    desc = desc_from_json(r["desc"])
    work = common.scratch_dir("c07replay")
    try:
        res = evaluate_case(desc, r["lang"], points_from_json(r["points"]), work, int_literals=bool(r.get("int_literals")))
    finally:
        shutil.rmtree(work, ignore_errors=True)
    print("model:", describe(desc))
    print("generation:", res["obs"]["gen"], "| second call:", res["obs"]["second"], "| cached parameters after:", res["obs"]["cache_after"])
    if res["obs"]["text"]:
        print(res["obs"]["text"])
    print("executed:", res["execs"])
    print("model returns:", [[str(x) for x in v] if v is not None else None for v in res["refs"]])
    fid = finding_for(desc, r["lang"], res["execs"][0][0] if res["execs"] else None, res["execs"][0] if res["execs"] else None)
    print("oracle:", res["bad"] or "property holds on this input", f"(inside recorded finding {fid})" if (res["bad"] and fid) else "")
    return 1 if res["bad"] else 0
