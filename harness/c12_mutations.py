"""C12 mutation self-tests (development aid, not part of the registered commands).

Usage (from /verif):   C12_MUTATION=<name> tools/mutate.sh C12 /verif/harness/c12_mutations.py
  tools/mutate.sh copies /repo to /var/tmp, runs this script inside the copy, runs ./check C12 against
  the copy and deletes it.  C12_PENDING_FIX=1 first applies fixes/C12-dynamic-coefficient.diff (needed
  as long as the lead has not applied it to /repo; afterwards leave it unset).
Every mutation must give exit 1 with a VIOLATION line and a replay that reproduces on the copy.
Results are recorded in design/C12.md."""

import os
import subprocess
import sys

SYM = "src/mxlpy/symbolic/symbolic_model.py"
SIM = "src/mxlpy/simulator.py"
LAMBDA = """                    x,
                    _par_values(),
                )"""

MUTATIONS = {
    # reversal of the applied fixes
    "rev-derived-order": ("patch", "/verif/fixes/C12-derived-order.diff"),
    "rev-jacobian-closure": (SIM, LAMBDA, LAMBDA.replace("_par_values(),", "self.model._parameters.values(),  # noqa: SLF001")),
    "rev-dynamic-coefficient": ("patch", "/verif/fixes/C12-dynamic-coefficient.diff"),
    # closure
    "stale-parameters": (SIM, "                jac_fn = lambda t, x: _jac_fn(  # noqa: E731\n" + "                    t + t_shift,\n" + LAMBDA,
                         "                _pv = _par_values()\n                jac_fn = lambda t, x: _jac_fn(  # noqa: E731\n                    t + t_shift,\n"
                         + LAMBDA.replace("_par_values(),", "_pv,")),
    "base-values": (SIM, "return [cache.all_parameter_values[k] for k in _par_names]", "return list(self.model.get_parameter_values().values())"),
    "narrow-except": (SIM, "            except Exception as e:  # noqa: BLE001\n                _LOGGER.warning(str(e), stacklevel=2)\n\n        y0 = self.y0",
                      "            except KeyError as e:  # noqa: BLE001\n                _LOGGER.warning(str(e), stacklevel=2)\n\n        y0 = self.y0"),
    "lambdify-order": (SIM, '                        "time",\n                        self.model.get_variable_names(),\n                        _par_names,',
                       '                        "time",\n                        _par_names,\n                        self.model.get_variable_names(),'),
    # conversion
    "sorted-eqs": (SYM, "eqs=[eqs[i] for i in cache.var_names],", "eqs=[eqs[i] for i in sorted(cache.var_names)],"),
    "transpose": (SYM, "            sympy.Matrix(list(self.variables.values()))\n        )", "            sympy.Matrix(list(self.variables.values()))\n        ).T"),
    "abs-coefficient": (SYM, "sympy.Float(stoich_value) * rxns[rxn]", "sympy.Float(abs(stoich_value)) * rxns[rxn]"),
    "no-accumulate": (SYM, "eqs.get(cpd, sympy.Float(0.0)) + sympy.Float(stoich_value) * rxns[rxn]", "sympy.Float(stoich_value) * rxns[rxn]"),
    "dyn-no-coefficient": (SYM, "eqs[cpd] = eqs.get(cpd, sympy.Float(0.0)) + coef * rxns[rxn]", "eqs[cpd] = eqs.get(cpd, sympy.Float(0.0)) + rxns[rxn]"),
    # surrogates (the three below are what the surrogate-containing models of the generator are for)
    "merge-surrogate-symbols": (SYM, "] = variables | parameters | data  # type: ignore", "] = variables | parameters | data | surrogates  # type: ignore"),
    "skip-unknown-flux": (SYM, "        for rxn, stoich_value in stoich.items():\n", "        for rxn, stoich_value in stoich.items():\n            if rxn not in rxns:\n                continue\n"),
    "silent-fallback": (SIM, "                _LOGGER.warning(str(e), stacklevel=2)\n\n        y0 = self.y0", "                del e\n\n        y0 = self.y0"),
    # symbol assumptions / the state names of the lambdified Jacobian (seeded changes C12-4, C12-5 and neighbours)
    "nonneg-variable-symbols": ("apply", "/verif/seeded/C12-4/patch.diff"),
    "y0-key-order": ("apply", "/verif/seeded/C12-5/patch.diff"),
    "positive-parameter-symbols": (SYM, "cast(list[sympy.Symbol], list_of_symbols(model.get_parameter_values())),",
                                   "[sympy.Symbol(k, positive=True) for k in model.get_parameter_values()],"),
    "nonneg-all-symbols": ("src/mxlpy/meta/sympy_tools.py", "return [sympy.Symbol(arg) for arg in args]", "return [sympy.Symbol(arg, nonnegative=True) for arg in args]"),
    "sorted-state-names": (SIM, '                        "time",\n                        self.model.get_variable_names(),\n                        _par_names,',
                           '                        "time",\n                        sorted(self.model.get_variable_names()),\n                        _par_names,'),
    # coefficients of unit-conversion size (seeded change C12-9 and neighbours; closing pass)
    "rational-limited-coefficients": ("apply", "/verif/seeded/C12-9/patch.diff"),
    "six-digit-coefficients": (SYM, "sympy.Float(stoich_value) * rxns[rxn]", "sympy.Float(stoich_value, 6) * rxns[rxn]"),
    "drop-negligible-terms": (SYM, "        for rxn, stoich_value in stoich.items():\n            eqs[cpd] = (",
                              "        for rxn, stoich_value in stoich.items():\n            if abs(stoich_value) < 1e-9:\n                continue\n            eqs[cpd] = ("),
    "dyn-overwrite": (SYM, "eqs[cpd] = eqs.get(cpd, sympy.Float(0.0)) + coef * rxns[rxn]", "eqs[cpd] = coef * rxns[rxn]"),
}


def main() -> int:
    name = os.environ.get("C12_MUTATION", "")
    if name not in MUTATIONS:
        print("C12_MUTATION must be one of:", ", ".join(MUTATIONS))
        return 2
    if os.environ.get("C12_PENDING_FIX") and name != "rev-dynamic-coefficient":
        if subprocess.call("patch -p1 -s < /verif/fixes/C12-dynamic-coefficient.diff", shell=True):
            return 2
    m = MUTATIONS[name]
    if m[0] == "apply":
        return subprocess.call(f"patch -p1 -s < {m[1]}", shell=True)
    if m[0] == "patch":
        if os.environ.get("C12_PENDING_FIX") and name == "rev-dynamic-coefficient":
            return 0  # /repo without the pending fix IS this mutation
        return subprocess.call(f"patch -R -p1 -s < {m[1]}", shell=True)
    path, old, new = m
    s = open(path).read()
    if old not in s:
        print("mutation target not found in", path)
        return 2
    open(path, "w").write(s.replace(old, new, 1))
    return 0


if __name__ == "__main__":
    sys.exit(main())
