"""C07 helpers: read the emitted TEXT back (per-language skeleton reader) and EXECUTE it
(CPython exec; node for TypeScript with the annotations stripped; rustc, all programs of a run in
one crate; a Julia-subset interpreter, because Julia is not installed).

Outcomes (shared vocabulary with coq/codegen/Codegen.v `outcome`):
  ("ok", [Fraction]) | ("scalar", Fraction) | ("none",) | ("unbound",) | ("arity",) | ("fn",)
  | ("junk",) | ("illformed",) | ("other", text)   -- "other" has no counterpart in the model
"""

from __future__ import annotations

import json
import math
import re
import subprocess
from fractions import Fraction
from pathlib import Path
from typing import Any

from harness.common import to_fraction

NUM_RE = re.compile(r"^[+-]?(\d+\.?\d*|\.\d+)([eE][+-]?\d+)?$")


def _pname(s: str) -> tuple:
    s = s.strip()
    if s == "time":
        return ("N", 0)
    if s == "k":
        return ("K", 0)
    m = re.fullmatch(r"n(\d{4})", s)
    if m:
        return ("N", int(m.group(1)))
    m = re.fullmatch(r"dn(\d{4})dt", s)
    if m:
        return ("D", int(m.group(1)))
    raise ValueError(f"unreadable name {s!r}")


def _model_name(s: str) -> int:
    k, n = _pname(s)
    if k != "N":
        raise ValueError(s)
    return n


def _split_names(s: str) -> list[str]:
    return [x.strip() for x in s.split(",") if x.strip()]


def _lit(s: str) -> Fraction | None:
    s = s.strip()
    if NUM_RE.match(s):
        return Fraction(s)
    return None


HEADERS = {
    "py": re.compile(r"^def model\(time: float, variables: Iterable\[float\](?:, (.*))?\) -> Iterable\[float\]:$"),
    "ts": re.compile(r"^function model\(time: number, variables: number\[\](?:, (.*))?\) \{$"),
    "rs": re.compile(r"^fn model\(time: f64, variables: &\[f64; (\d+)\](?:, (.*))?\) -> \[f64; (\d+)\] \{$"),
    "jl": re.compile(r"^function model\(time, variables(?:, (.*))?\)$"),
}


def read_skeleton(lang: str, text: str) -> dict:
    """Parse the emitted text into {free, n, vars, ds (kind of destructuring), body, ret, unit}.
    Raises ValueError on anything that is not one of the shapes the generator can emit."""
    lines = text.split("\n")
    i = 0
    if lang == "py":
        if lines[:4] != ["import math", "", "from collections.abc import Iterable", ""]:
            raise ValueError("python preamble")
        i = 4
    m = HEADERS[lang].match(lines[i])
    if not m:
        raise ValueError(f"header {lines[i]!r}")
    n = None
    if lang == "rs":
        if m.group(1) != m.group(3):
            raise ValueError("sizes differ")
        n = int(m.group(1))
        free_s = m.group(2)
    else:
        free_s = m.group(1)
    free = []
    for part in _split_names(free_s or ""):
        nm_ = part.split(":")[0]
        suffix = {"py": ": float", "ts": ": number", "rs": ": f64", "jl": ""}[lang]
        if part != nm_ + suffix:
            raise ValueError(f"free parameter {part!r}")
        free.append(_model_name(nm_))
    i += 1
    end = {"py": None, "ts": "};", "rs": "}", "jl": "end"}[lang]
    body_lines = lines[i:]
    if end is not None:
        if not body_lines or body_lines[-1] != end:
            raise ValueError("end marker")
        body_lines = body_lines[:-1]
    # statements: a new one starts at a 4-space line of a statement shape; other lines continue
    start = {
        "py": re.compile(r"^    (return\b|\[?[\w, ]+\]? = variables$|\w+: float = )"),
        "jl": re.compile(r"^    (return\b|[\w, ]+ = \*?variables$|\w+ = )"),
        "ts": re.compile(r"^    (return\b|let )"),
        "rs": re.compile(r"^    (return\b|let )"),
    }[lang]
    stmts: list[str] = []
    for ln in body_lines:
        if start.match(ln):
            stmts.append(ln[4:])
        elif stmts:
            stmts[-1] += "\n" + ln
        else:
            raise ValueError(f"stray line {ln!r}")
    if not stmts or not stmts[-1].startswith("return"):
        raise ValueError("no return")
    sk: dict[str, Any] = {"free": free, "n": n, "vars": [], "ds": None, "body": [], "ret": [], "unit": False}
    semi = ";" if lang in ("ts", "rs") else ""
    for s in stmts[:-1]:
        ds = None
        if lang == "py":
            if re.fullmatch(r"\[[\w, ]+\] = variables", s):
                ds, names = "DsList", s[1 : s.index("]")]
            elif re.fullmatch(r"[\w, ]+ = variables", s):
                ds, names = "DsBare", s[: s.index(" =")]
        elif lang == "jl":
            if re.fullmatch(r"[\w, ]+ = \*variables", s):
                ds, names = "DsSplat", s[: s.index(" =")]
            elif re.fullmatch(r"[\w, ]+ = variables", s):
                ds, names = "DsBare", s[: s.index(" =")]
        elif lang == "ts":
            mm = re.fullmatch(r"let \[([\w, ]+)\] = variables;", s)
            if mm:
                ds, names = "DsList", mm.group(1)
        elif lang == "rs":
            mm = re.fullmatch(r"let \[([\w, ]+)\] = \*variables;", s)
            if mm:
                ds, names = "DsList", mm.group(1)
        if ds is not None:
            if sk["ds"] is not None or sk["body"]:
                raise ValueError("destructuring line not first")
            sk["ds"] = ds
            sk["vars"] = [_model_name(x) for x in _split_names(names)]
            continue
        pat = {
            "py": r"(\w+): float = (.*)",
            "ts": r"let (\w+): number = (.*);",
            "rs": r"let (\w+): f64 = (.*);",
            "jl": r"(\w+) = (.*)",
        }[lang]
        mm = re.fullmatch(pat, s, flags=re.S)
        if not mm:
            raise ValueError(f"statement {s!r}")
        sk["body"].append((_pname(mm.group(1)), _lit(mm.group(2))))
    r = stmts[-1]
    if lang == "py" and re.fullmatch(r"return \[(.*)\]", r):
        inner = r[len("return [") : -1]  # the repaired Python template
    elif lang in ("py", "jl"):
        mm = re.fullmatch(r"return ?(.*)", r)
        inner = mm.group(1) if mm else None
    elif lang == "ts":
        mm = re.fullmatch(r"return \[(.*)\];", r)
        inner = mm.group(1) if mm else None
    else:
        mm = re.fullmatch(r"return \[(.*)\]", r)
        inner = mm.group(1) if mm else None
    if inner is None:
        raise ValueError(f"return {r!r}")
    if inner.strip() == "()":
        sk["unit"] = True
    else:
        sk["ret"] = [_pname(x) for x in _split_names(inner)]
    return sk


# ---------------------------------------------------------------------------------------
# CPython
# ---------------------------------------------------------------------------------------


def _classify_value(res: Any) -> tuple:
    if res is None:
        return ("none",)
    if isinstance(res, (int, float)) and not isinstance(res, bool):
        try:
            return ("scalar", to_fraction(res))
        except ValueError:
            return ("other", f"non-finite {res!r}")
    if isinstance(res, (tuple, list)):
        try:
            return ("ok", [to_fraction(x) for x in res if _isnum(x, strict=True)])
        except TypeError:
            return ("junk",)  # a list whose entries are not numbers (Python's `return [()]`)
        except ValueError as e:
            return ("other", f"non-finite entries: {e}")
    return ("other", f"returned {type(res).__name__}")


def _isnum(x: Any, *, strict: bool = False) -> bool:
    ok = isinstance(x, (int, float)) and not isinstance(x, bool)
    if strict and not ok:
        raise TypeError(f"entry of type {type(x).__name__}")
    return ok


def run_py(text: str, points: list[tuple]) -> list[tuple]:
    try:
        code = compile(text, "<generated>", "exec")
    except SyntaxError:
        return [("illformed",)] * len(points)
    ns: dict[str, Any] = {}
    try:
        exec(code, ns)  # noqa: S102 - the whole point
        fn = ns["model"]
    except Exception as e:  # noqa: BLE001
        return [("other", f"module level {type(e).__name__}: {e}")] * len(points)
    out = []
    for t, y, fv in points:
        try:
            res = fn(float(t), [float(v) for v in y], *[float(v) for v in fv])
            out.append(_classify_value(res))
        except NameError:  # includes UnboundLocalError
            out.append(("unbound",))
        except ZeroDivisionError:
            out.append(("fn",))
        except TypeError as e:
            msg = str(e)
            if "positional argument" in msg:
                out.append(("arity",))
            else:
                out.append(("other", f"TypeError: {msg}"))
        except ValueError as e:
            msg = str(e)
            if "unpack" in msg:
                out.append(("arity",))
            else:
                out.append(("other", f"ValueError: {msg}"))
        except Exception as e:  # noqa: BLE001
            out.append(("other", f"{type(e).__name__}: {e}"))
    return out


# ---------------------------------------------------------------------------------------
# node (TypeScript with annotations stripped)
# ---------------------------------------------------------------------------------------

_JS_DRIVER = r"""
const fs = require('fs');
const jobs = JSON.parse(fs.readFileSync(process.argv[2], 'utf8'));
const out = [];
for (const job of jobs) {
  let f = null, res = [];
  try { f = new Function(job.src + "\nreturn model;")(); }
  catch (e) { for (const _ of job.points) res.push({k: e.name === 'SyntaxError' ? 'illformed' : 'other', msg: e.name + ': ' + e.message}); }
  if (f !== null) {
    for (const p of job.points) {
      try {
        const v = f(p.t, p.y, ...p.fv);
        if (Array.isArray(v)) res.push({k: 'ok', v: v.map(x => (typeof x === 'number' && isFinite(x)) ? x : String(x))});
        else if (typeof v === 'number') res.push({k: 'scalar', v: v});
        else if (v === undefined) res.push({k: 'none'});
        else res.push({k: 'other', msg: 'returned ' + typeof v});
      } catch (e) {
        if (e.name === 'ReferenceError') res.push({k: 'unbound', msg: e.message});
        else if (e.name === 'TypeError' && /iterable/.test(e.message)) res.push({k: 'arity', msg: e.message});
        else res.push({k: 'other', msg: e.name + ': ' + e.message});
      }
    }
  }
  out.push(res);
}
fs.writeFileSync(process.argv[3], JSON.stringify(out));
"""


def strip_ts(text: str) -> str:
    return re.sub(r": number(\[\])?", "", text)


def run_ts_batch(jobs: list[tuple[str, list[tuple]]], work: Path) -> list[list[tuple]]:
    """jobs: [(ts text, points)] -> per job, per point outcome."""
    if not jobs:
        return []
    work.mkdir(parents=True, exist_ok=True)
    (work / "driver.js").write_text(_JS_DRIVER)
    payload = [
        {"src": strip_ts(src), "points": [{"t": float(t), "y": [float(v) for v in y], "fv": [float(v) for v in fv]} for t, y, fv in pts]}
        for src, pts in jobs
    ]
    (work / "jobs.json").write_text(json.dumps(payload))
    p = subprocess.run(["timeout", "300", "node", "driver.js", "jobs.json", "out.json"], cwd=work, capture_output=True, text=True)
    if p.returncode != 0:
        return [[("other", f"node failed: {p.stderr[-300:]}")] * len(pts) for _s, pts in jobs]
    raw = json.loads((work / "out.json").read_text())
    res = []
    for job_out in raw:
        rr = []
        for o in job_out:
            k = o["k"]
            if k == "ok":
                if all(isinstance(x, (int, float)) for x in o["v"]):
                    rr.append(("ok", [to_fraction(x) for x in o["v"]]))
                else:
                    rr.append(("other", f"non-numeric entries {o['v']}"))
            elif k == "scalar":
                rr.append(("scalar", to_fraction(o["v"])) if math.isfinite(o["v"]) else ("other", "non-finite"))
            elif k in ("none", "unbound", "arity", "illformed"):
                rr.append((k,))
            else:
                rr.append(("other", o.get("msg", "")))
        res.append(rr)
    return res


# ---------------------------------------------------------------------------------------
# rustc (one crate for all programs of a run)
# ---------------------------------------------------------------------------------------


def _rs_num(q: Fraction) -> str:
    return f"({float(q)!r}f64)"


def run_rs_batch(jobs: list[tuple[str, list[tuple]]], work: Path) -> tuple[list[list[tuple]], dict]:
    """-> (outcomes per job per point, stats).  A program rustc rejects is classified from the error
    codes: E0425 only -> unbound; integer-literal type errors -> ("intlit", messages, the offending
    source lines of the program -- so that the oracle can tell WHICH line carries the literal);
    anything else -> illformed.  Rejected programs are removed and the crate is compiled again."""
    stats = {"rustc_rounds": 0, "rejected": 0}
    if not jobs:
        return [], stats
    work.mkdir(parents=True, exist_ok=True)
    verdict: dict[int, tuple] = {}
    alive = list(range(len(jobs)))
    out_lines: dict[tuple[int, int], str] = {}
    for _round in range(6):
        stats["rustc_rounds"] += 1
        src = ["#![allow(warnings)]"]
        ranges = []
        for j in alive:
            start = len(src) + 1
            src.append(f"mod p{j} {{")
            src.append("pub " + jobs[j][0])
            src.append("}")
            ranges.append((start, start + jobs[j][0].count("\n") + 2, j))
        src.append("fn main() {")
        for j in alive:
            for k, (t, y, fv) in enumerate(jobs[j][1]):
                args = ", ".join([_rs_num(t), "&[" + ", ".join(_rs_num(v) for v in y) + "]", *[_rs_num(v) for v in fv]])
                src.append(f'    println!("{j} {k} {{:?}}", p{j}::model({args}));')
        src.append("}")
        # NB: `"\n".join` -- a generated program may span several lines; ranges count them
        text = "\n".join(src)
        (work / "main.rs").write_text(text)
        p = subprocess.run(
            ["timeout", "600", "rustc", "--edition", "2021", "--error-format=short", "-C", "opt-level=0", "-C", "debuginfo=0", "-o", "main_bin", "main.rs"],
            cwd=work, capture_output=True, text=True,
        )
        if p.returncode == 0:
            r = subprocess.run(["timeout", "120", "./main_bin"], cwd=work, capture_output=True, text=True)
            for ln in r.stdout.splitlines():
                a, b, rest = ln.split(" ", 2)
                out_lines[(int(a), int(b))] = rest
            break
        # recompute line ranges on the joined text
        line_of_mod: list[tuple[int, int, int]] = []
        cur = 0
        all_lines = text.split("\n")
        idx = 0
        for j in alive:
            while not all_lines[idx].startswith(f"mod p{j} {{"):
                idx += 1
            s = idx + 1
            nlines = jobs[j][0].count("\n") + 1
            line_of_mod.append((s, s + nlines + 1, j))
            idx = s + nlines
        errs: dict[int, list[tuple[str, str, str]]] = {}
        for ln in p.stderr.splitlines():
            mm = re.match(r"main\.rs:(\d+):\d+: error(?:\[(E\d+)\])?: (.*)", ln)
            if not mm:
                continue
            lno = int(mm.group(1))
            for s, e, j in line_of_mod:
                if s <= lno <= e:
                    errs.setdefault(j, []).append((mm.group(2) or "", mm.group(3), all_lines[lno - 1].strip()))
                    break
            else:
                errs.setdefault(-1, []).append((mm.group(2) or "", mm.group(3), ""))
        if not errs or set(errs) == {-1}:
            for j in alive:
                verdict[j] = ("other", "rustc failed: " + p.stderr[-300:])
            alive = []
            break
        for j, es in errs.items():
            if j < 0:
                continue
            stats["rejected"] += 1
            intlit = [e for e in es if "integer" in e[1]]
            unb = [e for e in es if e[0] == "E0425"]
            rest = [e for e in es if e not in intlit and e not in unb]
            if intlit:
                verdict[j] = ("intlit", "; ".join(m for _c, m, _l in intlit[:2]), sorted({l for _c, _m, l in intlit}))
            elif rest:
                verdict[j] = ("illformed", "; ".join(f"{c} {m}" for c, m, _l in rest[:2]))
            else:
                verdict[j] = ("unbound",)
        alive = [j for j in alive if j not in verdict]
        if not alive:
            break
    res: list[list[tuple]] = []
    for j, (_src, pts) in enumerate(jobs):
        if j in verdict:
            res.append([verdict[j]] * len(pts))
            continue
        rr = []
        for k in range(len(pts)):
            s = out_lines.get((j, k))
            if s is None:
                rr.append(("other", "no output from the rust binary"))
                continue
            try:
                vals = [float(x) for x in s.strip()[1:-1].split(",") if x.strip()]
                rr.append(("ok", [to_fraction(v) for v in vals]))
            except ValueError as e:
                rr.append(("other", f"unreadable rust output {s!r}: {e}"))
        res.append(rr)
    for f in ("main_bin",):
        if (work / f).exists():
            (work / f).unlink()
    return res, stats


# ---------------------------------------------------------------------------------------
# Julia subset interpreter
# ---------------------------------------------------------------------------------------


class JlSyntax(Exception):
    pass


class JlUndef(Exception):
    pass


class JlRuntime(Exception):
    pass


_TOK = re.compile(r"\s*(?:(\d+\.?\d*(?:[eE][+-]?\d+)?)|([A-Za-z_]\w*)|(\.\*|\./|\.\^|<=|>=|==|!=|&&|\|\||[-+*/^()<>?:,]))")


def _jl_tokens(s: str) -> list[tuple[str, str]]:
    out, i = [], 0
    s = s.rstrip()
    while i < len(s):
        m = _TOK.match(s, i)
        if not m or m.end() == i:
            raise JlSyntax(f"cannot tokenise {s[i:]!r}")
        if m.group(1) is not None:
            out.append(("num", m.group(1)))
        elif m.group(2) is not None:
            out.append(("id", m.group(2)))
        else:
            out.append(("op", m.group(3)))
        i = m.end()
    return out


class _JlParser:
    """expr := ternary ; precedence (low->high): ?: , || , && , comparison , + - , * / .* ./ , unary - , ^ .^"""

    def __init__(self, toks):
        self.t = toks
        self.i = 0

    def peek(self):
        return self.t[self.i] if self.i < len(self.t) else ("end", "")

    def eat(self, kind=None, val=None):
        k, v = self.peek()
        if (kind and k != kind) or (val and v != val):
            raise JlSyntax(f"expected {val or kind}, found {v or k!r}")
        self.i += 1
        return v

    def expr(self):
        c = self.or_()
        if self.peek() == ("op", "?"):
            self.eat()
            a = self.expr()
            self.eat("op", ":")
            b = self.expr()
            return ("if", c, a, b)
        return c

    def or_(self):
        a = self.and_()
        while self.peek() == ("op", "||"):
            self.eat()
            a = ("or", a, self.and_())
        return a

    def and_(self):
        a = self.cmp()
        while self.peek() == ("op", "&&"):
            self.eat()
            a = ("and", a, self.cmp())
        return a

    def cmp(self):
        a = self.add()
        while self.peek()[0] == "op" and self.peek()[1] in ("<", ">", "<=", ">=", "==", "!="):
            op = self.eat()
            a = ("cmp", op, a, self.add())
        return a

    def add(self):
        a = self.mul()
        while self.peek()[0] == "op" and self.peek()[1] in ("+", "-"):
            op = self.eat()
            a = ("bin", op, a, self.mul())
        return a

    def mul(self):
        a = self.unary()
        while self.peek()[0] == "op" and self.peek()[1] in ("*", "/", ".*", "./"):
            op = self.eat()
            a = ("bin", op[-1], a, self.unary())
        return a

    def unary(self):
        if self.peek() == ("op", "-"):
            self.eat()
            return ("neg", self.unary())
        if self.peek() == ("op", "+"):
            self.eat()
            return self.unary()
        return self.pow()

    def pow(self):
        a = self.atom()
        if self.peek()[0] == "op" and self.peek()[1] in ("^", ".^"):
            self.eat()
            return ("bin", "^", a, self.unary())
        return a

    def atom(self):
        k, v = self.peek()
        if k == "num":
            self.eat()
            return ("num", Fraction(v))
        if k == "id":
            self.eat()
            if self.peek() == ("op", "("):
                self.eat()
                args = []
                if self.peek() != ("op", ")"):
                    args.append(self.expr())
                    while self.peek() == ("op", ","):
                        self.eat()
                        args.append(self.expr())
                self.eat("op", ")")
                return ("call", v, args)
            return ("id", v)
        if (k, v) == ("op", "("):
            self.eat()
            if self.peek() == ("op", ")"):
                self.eat()
                return ("tuple", [])
            e = self.expr()
            self.eat("op", ")")
            return e
        raise JlSyntax(f"unexpected {v or k!r}")  # e.g. the unary `*` of "*variables"


def _jl_eval(e, env):
    k = e[0]
    if k == "num":
        return e[1]
    if k == "id":
        if e[1] not in env:
            raise JlUndef(e[1])
        return env[e[1]]
    if k == "tuple":
        return ()
    if k == "neg":
        v = _jl_eval(e[1], env)
        return tuple(-x for x in v) if isinstance(v, tuple) else -v
    if k == "if":
        c = _jl_eval(e[1], env)
        if not isinstance(c, bool):
            raise JlRuntime("non-boolean used in boolean context")
        return _jl_eval(e[2] if c else e[3], env)
    if k in ("and", "or"):
        a = _jl_eval(e[1], env)
        if not isinstance(a, bool):
            raise JlRuntime("non-boolean used in boolean context")
        if (k == "and" and not a) or (k == "or" and a):
            return a
        return _jl_eval(e[2], env)
    if k == "cmp":
        a, b = _jl_eval(e[2], env), _jl_eval(e[3], env)
        if isinstance(a, tuple) or isinstance(b, tuple):
            raise JlRuntime("comparison of a vector")
        return {"<": a < b, ">": a > b, "<=": a <= b, ">=": a >= b, "==": a == b, "!=": a != b}[e[1]]
    if k == "bin":
        a, b = _jl_eval(e[2], env), _jl_eval(e[3], env)
        if isinstance(a, (tuple, bool)) or isinstance(b, (tuple, bool)):
            raise JlRuntime("arithmetic on a non-number")
        if e[1] == "+":
            return a + b
        if e[1] == "-":
            return a - b
        if e[1] == "*":
            return a * b
        if e[1] == "/":
            if b == 0:
                raise JlRuntime("division by zero")
            return a / b
        if b.denominator != 1:
            raise JlRuntime("non-integer power")
        return a ** int(b)
    if k == "call":
        args = [_jl_eval(a, env) for a in e[2]]
        if e[1] == "abs" and len(args) == 1:
            return abs(args[0])
        if e[1] == "max":
            return max(args)
        if e[1] == "min":
            return min(args)
        raise JlUndef(e[1])
    raise JlRuntime(str(e))


def run_jl(text: str, points: list[tuple]) -> list[tuple]:
    """Interpret the emitted Julia text with a small interpreter of the subset the generator can
    emit (assignments, tuple destructuring, arithmetic, comparisons, ?:, return)."""
    lines = text.split("\n")
    try:
        m = re.fullmatch(r"function model\(([\w, ]*)\)", lines[0])
        if not m or lines[-1] != "end":
            raise JlSyntax("function header / end")
        params = _split_names(m.group(1))
        stmts = []
        logical: list[str] = []
        for ln in lines[1:-1]:
            # SymPy breaks a nested ?: after the colon: such lines continue the previous statement
            if re.match(r"^    (return\b|[\w, ]+ = )", ln) or not logical:
                logical.append(ln)
            else:
                logical[-1] += " " + ln.strip()
        for ln in logical:
            s = ln.strip()
            if not s:
                continue
            if s.startswith("return"):
                rest = s[len("return") :].strip()
                if not rest:
                    stmts.append(("ret", None))
                else:
                    p = _JlParser(_jl_tokens(rest))
                    es = [p.expr()]
                    while p.peek() == ("op", ","):
                        p.eat()
                        es.append(p.expr())
                    if p.peek()[0] != "end":
                        raise JlSyntax("trailing tokens")
                    stmts.append(("ret", es))
                continue
            mm = re.fullmatch(r"([\w, ]+?)\s*=\s*(.*)", s)
            if not mm or mm.group(2).startswith("="):
                raise JlSyntax(f"statement {s!r}")
            targets = _split_names(mm.group(1))
            trailing_comma = mm.group(1).rstrip().endswith(",")
            p = _JlParser(_jl_tokens(mm.group(2)))
            e = p.expr()
            if p.peek()[0] != "end":
                raise JlSyntax("trailing tokens")
            stmts.append(("asg", targets, e, len(targets) > 1 or trailing_comma))
    except JlSyntax:
        return [("illformed",)] * len(points)
    out = []
    for t, y, fv in points:
        vals = [t, tuple(y), *fv]
        if len(vals) != len(params):
            out.append(("arity",))
            continue
        env: dict[str, Any] = dict(zip(params, vals))
        try:
            res: Any = ("none",)
            for st in stmts:
                if st[0] == "asg":
                    v = _jl_eval(st[2], env)
                    if st[3]:
                        if not isinstance(v, tuple) or len(v) < len(st[1]):
                            raise JlRuntime("destructuring")
                        for nm_, x in zip(st[1], v):
                            env[nm_] = x
                    else:
                        env[st[1][0]] = v
                else:
                    if st[1] is None:
                        res = ("none",)
                    elif len(st[1]) == 1:
                        v = _jl_eval(st[1][0], env)
                        if isinstance(v, tuple):
                            res = ("ok", list(v)) if all(isinstance(x, Fraction) for x in v) else ("other", "nested")
                        elif isinstance(v, bool):
                            res = ("other", "returned Bool")
                        else:
                            res = ("scalar", v)
                    else:
                        vs = [_jl_eval(x, env) for x in st[1]]
                        res = ("ok", vs) if all(isinstance(x, Fraction) for x in vs) else ("other", "non-numeric entries")
                    break
            out.append(res)
        except JlUndef:
            out.append(("unbound",))
        except JlRuntime as e:
            out.append(("other", f"julia runtime: {e}"))
    return out
