"""C05 known finding c05-reversible-unbalanced: a reversible mass-action law written as ONE reaction (the rate takes its
own product, mxlpy.fns.mass_action_1s_1p: kf*A - kr*B) whose two sides carry different numbers of label positions.

A(1 position) <-> B(2 positions, the second one enters from outside): one isotopomer reaction per SUBSTRATE pattern is
generated, v__01 reads B__01 and v__11 reads B__11 -- B__00 and B__10 never react back.  At A__0 = A__1 = 1, B__00 = 1,
kf = kr = 1 the summed derivative of A's isotopomers is -2; the base model at the totals A = 2, B = 1 gives -1.
With equally many positions on both sides and a permutation map the sums agree (second part, must hold).
Exit 1 while the behaviour is present.

Run: PYTHONPATH=<repo>/src /venv/bin/python findings/c05_reversible_unbalanced.py
"""
import sys

from mxlpy import LabelMapper, Model
from mxlpy.fns import mass_action_1s_1p


def run(lv, lmap, state):
    m = Model().add_variables({"A": 2.0, "B": 1.0}).add_parameters({"kf": 1.0, "kr": 1.0})
    m.add_reaction("v", fn=mass_action_1s_1p, args=["A", "B", "kf", "kr"], stoichiometry={"A": -1, "B": 1})
    mapper = LabelMapper(m, label_variables=lv, label_maps={"v": lmap})
    lm = mapper.build_model()
    isos = mapper.get_isotopomers()
    full = {k: 0.0 for k in lm.get_variable_names()} | state
    rhs = lm.get_right_hand_side(full, time=0.0)
    totals = {c: sum(full[i] for i in isos[c]) for c in lv}
    want = m.get_right_hand_side(totals, time=0.0)["A"]
    got = sum(rhs[i] for i in isos["A"])
    print({k: r.args for k, r in lm.get_raw_reactions().items()})
    print("summed isotopomer derivative of A:", got, " base derivative at the totals:", want)
    return got == want


ok_unbalanced = run({"A": 1, "B": 2}, [0, 1], {"A__0": 1.0, "A__1": 1.0, "B__00": 1.0})
ok_balanced = run({"A": 2, "B": 2}, [1, 0], {"A__00": 1.0, "A__01": 2.0, "B__00": 1.0, "B__10": 3.0})
if not ok_balanced:
    print("UNEXPECTED: the balanced reversible reaction does not collapse either")
sys.exit(0 if (ok_unbalanced and ok_balanced) else 1)
