"""C18: response_coefficients with explicit initial values leaves the caller's model changed.

mca._response_coefficient_worker applies `y0` with model.update_variables(y0) and never undoes it, so a
sequential run (parallel=False) of mca.response_coefficients(model, variables={...}) -- and
mc.response_coefficients(model, variables={...}), which applies them in the caller's process -- returns
with the model's initial values overwritten.  Exits non-zero on the defect, zero when repaired
(fixes/C18-restore-initial-values.diff)."""
import pandas as pd

from mxlpy import Model, mc, mca


def influx(k):
    return k


def ma(k, s):
    return k * s


def model():
    return (
        Model()
        .add_variable("x", 1.0)
        .add_parameters({"k0": 4.0, "k1": 2.0})
        .add_reaction("v0", fn=influx, args=["k0"], stoichiometry={"x": 1})
        .add_reaction("v1", fn=ma, args=["k1", "x"], stoichiometry={"x": -1})
    )


bad = []
m = model()
mca.response_coefficients(m, variables={"x": 5.0}, parallel=False, disable_tqdm=True)
if m.get_initial_conditions() != {"x": 1.0}:
    bad.append(f"mca.response_coefficients(parallel=False): initial values now {m.get_initial_conditions()}")
m = model()
mc.response_coefficients(m, mc_to_scan=pd.DataFrame({"k1": [2.0, 3.0]}), to_scan=["k0"], variables={"x": 5.0}, disable_tqdm=True, max_workers=2)
if m.get_initial_conditions() != {"x": 1.0}:
    bad.append(f"mc.response_coefficients: initial values now {m.get_initial_conditions()}")
print("\n".join(bad) or "model left as found")
raise SystemExit(1 if bad else 0)
