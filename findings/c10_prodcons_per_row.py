"""C10 -- producers / consumers must follow the coefficient's sign row by row.

dx/dt = p * v with v = x:  the coefficient of x in v is the parameter p.  Segment 0 runs with p = 1
(v produces x), segment 1 with p = -1 (v consumes x).  A second model has the state-computed
coefficient (2 - x): positive while x < 2, negative afterwards, inside ONE segment.

Property C10: "producers and consumers are exactly the fluxes with positive and negative coefficient
(scaled by it on request)" -- for the values in force at each reported point.

Exit status 0 when the views follow the sign row by row (rows in which a listed flux has the other
sign are NaN), 1 on the defect (the sign is decided once, under the FIRST segment's parameters at
the model's INITIAL state, and scaled by the coefficient at the initial state).

    PYTHONPATH=<repo>/src python findings/c10_prodcons_per_row.py
"""
from __future__ import annotations

import math
import sys

import pandas as pd

from mxlpy import Derived, Model
from mxlpy.simulation import Simulation


def ident(a: float) -> float:
    return a


def two_minus(a: float) -> float:
    return 2 - a


def frame(rows: dict[float, float]) -> pd.DataFrame:
    return pd.DataFrame({"x": list(rows.values())}, index=list(rows))


def cells(df: pd.DataFrame, col: str) -> list[float | None]:
    if col not in df.columns:
        return [None] * len(df)
    return [None if (isinstance(v, float) and math.isnan(v)) else float(v) for v in df[col].tolist()]


bad: list[str] = []

# (1) the sign changes BETWEEN segments (parameter-computed coefficient)
m = Model().add_variable("x", 1.0).add_parameter("p", 1.0)
m.add_reaction("v", fn=ident, args=["x"], stoichiometry={"x": Derived(fn=ident, args=["p"])})
res = Simulation(model=m, raw_variables=[frame({0.0: 1.0, 1.0: 2.0}), frame({2.0: 3.0})], raw_parameters=[{"p": 1.0}, {"p": -1.0}])
prod, cons = res.get_producers("x"), res.get_consumers("x")
print("segments p=1 | p=-1   producers:", cells(prod, "v"), " consumers:", cells(cons, "v"))
if cells(prod, "v") != [1.0, 2.0, None]:
    bad.append(f"producers of x list v = {cells(prod, 'v')} (coefficient at t=2 is p=-1: v consumes x there); expected [1, 2, NaN]")
if cells(cons, "v") != [None, None, 3.0]:
    bad.append(f"consumers of x list v = {cells(cons, 'v')}; expected [NaN, NaN, 3]")
scaled = res.get_consumers("x", scaled=True)
if cells(scaled, "v") != [None, None, 3.0]:
    bad.append(f"scaled consumers = {cells(scaled, 'v')}; expected [NaN, NaN, 3*|-1|]")

# (2) the sign changes INSIDE a segment (state-computed coefficient 2 - x), and the scale is per row
m2 = Model().add_variable("x", 0.0).add_parameter("p", 1.0)
m2.add_reaction("v", fn=ident, args=["p"], stoichiometry={"x": Derived(fn=two_minus, args=["x"])})
res2 = Simulation(model=m2, raw_variables=[frame({0.0: 0.0, 1.0: 1.0, 2.0: 3.0})], raw_parameters=[{"p": 1.0}])
prod2, cons2 = res2.get_producers("x", scaled=True), res2.get_consumers("x", scaled=True)
print("coefficient 2-x at x=0,1,3   scaled producers:", cells(prod2, "v"), " scaled consumers:", cells(cons2, "v"))
if cells(prod2, "v") != [2.0, 1.0, None]:
    bad.append(f"scaled producers = {cells(prod2, 'v')}; the coefficient is 2, 1, -1 on the three rows: expected [2, 1, NaN]")
if cells(cons2, "v") != [None, None, 1.0]:
    bad.append(f"scaled consumers = {cells(cons2, 'v')}; expected [NaN, NaN, 1]")

# (3) unchanged behaviour where the sign is constant: tests/test_simulation.py
m3 = Model().add_variable("x", 1.0).add_parameter("k", 2.0)
m3.add_reaction("v_in", fn=ident, args=["k"], stoichiometry={"x": 2}).add_reaction("v_out", fn=ident, args=["k"], stoichiometry={"x": -2})
res3 = Simulation(model=m3, raw_variables=[frame({0.0: 1.0}), frame({1.0: 1.0})], raw_parameters=[{"k": 1.0}, {"k": 2.0}])
if list(res3.get_producers("x", scaled=True).columns) != ["v_in"] or cells(res3.get_producers("x", scaled=True), "v_in") != [2.0, 4.0]:
    bad.append("constant-sign case changed")

for b in bad:
    print("DEFECT:", b)
print("property", "VIOLATED" if bad else "holds on these inputs")
sys.exit(1 if bad else 0)
