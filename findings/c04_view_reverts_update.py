"""C04 finding view-read-reverts-parameter-update.

Each segment of a continued simulation has to run under the parameter values in force during that segment.
Simulator.get_result() hands out a Simulation that shares the Simulator's model; every view that evaluates the
model (.variables, .fluxes, get_args, get_combined, get_right_hand_side, get_producers, get_consumers) re-applies
each segment's recorded parameters to that model and leaves it at the LAST segment's values.  A parameter update
made after the last segment is silently undone by merely LOOKING at the results:

    simulate(1) ; update_parameter("k", 3) ; get_result().variables ; simulate(2)

runs (and records) the second segment with k = 1.

Model: dx/dt = s - k*x   (x(t) = s/k + (x0 - s/k) exp(-k (t - t0)))
Exit status 1 while the defect is present, 0 once it is repaired (fixes/C04-views-restore-parameters.diff).
"""

from __future__ import annotations

import sys

import numpy as np

from mxlpy import Model, Simulator, fns

S = 2.0


def make_model() -> Model:
    return (
        Model()
        .add_variables({"x": 1.0})
        .add_parameters({"s": S, "k": 1.0})
        .add_reaction("v_in", fns.constant, args=["s"], stoichiometry={"x": 1.0})
        .add_reaction("v_out", fns.mass_action_1s, args=["x", "k"], stoichiometry={"x": -1.0})
    )


def closed_form(x0: float, k: float, dt: np.ndarray) -> np.ndarray:
    return S / k + (x0 - S / k) * np.exp(-k * dt)


VIEWS = {
    "none": lambda r: None,
    "raw variables": lambda r: r.get_variables(
        include_derived_variables=False, include_readouts=False, include_surrogate_variables=False
    ),
    ".variables": lambda r: r.variables,
    ".fluxes": lambda r: r.fluxes,
    "get_args": lambda r: r.get_args(),
    "get_combined": lambda r: r.get_combined(),
    "get_right_hand_side": lambda r: r.get_right_hand_side(),
    "get_producers": lambda r: r.get_producers("x"),
    "get_consumers": lambda r: r.get_consumers("x", scaled=True),
}


def run(name: str) -> list[str]:
    problems = []
    sim = Simulator(make_model())
    sim.simulate(1, steps=4)
    sim.update_parameter("k", 3.0)
    VIEWS[name](sim.get_result().unwrap_or_err())
    k_model = sim.model.get_parameter_values()["k"]
    sim.simulate(2, steps=4)
    frame = sim.get_result().unwrap_or_err().get_variables(
        include_derived_variables=False, include_readouts=False, include_surrogate_variables=False
    )
    x = frame["x"].to_numpy()
    t = frame.index.to_numpy()
    seg1 = closed_form(1.0, 1.0, t[:5])
    seg2 = closed_form(seg1[-1], 3.0, t[5:] - 1.0)
    recorded = [p["k"] for p in sim.simulation_parameters or []]
    print(f"[{name:20s}] k in the model after the read: {k_model}; recorded per segment: {recorded}; x(2) = {x[-1]:.6f} "
          f"(k=3: {seg2[-1]:.6f})")
    if k_model != 3.0:
        problems.append(f"[{name}] the read changed k from 3.0 to {k_model}")
    if recorded != [1.0, 3.0]:
        problems.append(f"[{name}] recorded k per segment {recorded}, in force were [1.0, 3.0]")
    if not np.allclose(x, np.concatenate([seg1, seg2]), rtol=1e-5, atol=1e-6):
        problems.append(f"[{name}] second segment is not the solution under k = 3")
    return problems


def main() -> int:
    problems = [p for name in VIEWS for p in run(name)]
    if problems:
        print("FAIL")
        for p in problems:
            print("  -", p)
        return 1
    print("OK: reading results does not change the parameter values the next segment runs with")
    return 0


if __name__ == "__main__":
    sys.exit(main())
