"""C19: a cached run must return what the uncached run returns -- also for keys whose printed form
contains a path separator.

The default Cache.name_fn is f"{k!r}.p".  For a str key such as "ATP/ADP" (a row label of a scan frame,
a member of a MultiIndex tuple, a bytes key) the name is 'ATP/ADP'.p: `tmp_dir / name` then points into
the sub-directory "'ATP" of the cache directory, which nobody creates, so _pickle_save raises
FileNotFoundError and the whole cached run fails where the run without a cache returns its results.
Exits non-zero on the defect, zero when repaired (fixes/C19-slash-in-key.diff: "%" -> "%25", "/" -> "%2F"
in the printed key, so every name is a single path component and different keys keep different names).

    PYTHONPATH=<repo>/src python findings/c19_slash_in_key.py
"""
import shutil
import sys
import tempfile
from pathlib import Path

import pandas as pd

from mxlpy.parallel import Cache, parallelise


def sq(x):
    return x * x


CASES = [
    [("ATP/ADP", 2), ("NADH/NAD", 3)],
    [(("x/y", 1), 2), (("x/y", 2), 3)],
    [("/abs", 2)],
    [("../up", 2), ("..", 3), (".", 4)],
    [("a/b", 2), ("a%2Fb", 3), ("a%b", 4), ("a%252Fb", 5)],  # the encoding must keep different keys apart
    [(b"a/b", 2)],
]


def main() -> int:
    bad = 0
    for inputs in CASES:
        d = Path(tempfile.mkdtemp(prefix="c19-slash-"))
        try:
            plain = parallelise(sq, inputs, cache=None, parallel=False, disable_tqdm=True)
            try:
                cached = parallelise(sq, inputs, cache=Cache(tmp_dir=d / "cache"), parallel=False, disable_tqdm=True)
                again = parallelise(sq, inputs, cache=Cache(tmp_dir=d / "cache"), parallel=True, max_workers=2, disable_tqdm=True)
                files = sorted(str(p.relative_to(d / "cache")) for p in (d / "cache").rglob("*"))
                ok = plain == cached == again and len(files) == len(inputs) and all("/" not in f for f in files)
                detail = f"cached {cached} files {files}"
            except Exception as e:  # noqa: BLE001
                ok, detail = False, f"cached run raised {type(e).__name__}: {str(e)[:90]}"
        finally:
            shutil.rmtree(d, ignore_errors=True)
        print(("ok      " if ok else "DEFECT  ") + f"keys {[k for k, _ in inputs]!r}: uncached {plain}; {detail}")
        bad += not ok
    # through a scan: row labels of the parameter frame are the keys
    d = Path(tempfile.mkdtemp(prefix="c19-slash-"))
    try:
        from mxlpy import Model, fns, scan

        m = (
            Model()
            .add_variables({"x": 1.0})
            .add_parameters({"k1": 1.0, "k2": 2.0})
            .add_reaction("v1", fn=fns.constant, args=["k1"], stoichiometry={"x": 1})
            .add_reaction("v2", fn=fns.mass_action_1s, args=["x", "k2"], stoichiometry={"x": -1})
        )
        to_scan = pd.DataFrame({"k1": [1.0, 2.0]}, index=["low/high", "high/low"])
        plain = scan.steady_state(m, to_scan=to_scan, parallel=False)
        try:
            cached = scan.steady_state(m, to_scan=to_scan, parallel=False, cache=Cache(tmp_dir=d / "cache"))
            ok = plain.variables.equals(cached.variables)
            detail = "cached scan equals the uncached scan" if ok else "cached scan differs"
        except Exception as e:  # noqa: BLE001
            ok, detail = False, f"cached scan raised {type(e).__name__}: {str(e)[:90]}"
        print(("ok      " if ok else "DEFECT  ") + f"scan.steady_state with row labels {list(to_scan.index)!r}: {detail}")
        bad += not ok
    finally:
        shutil.rmtree(d, ignore_errors=True)
    # names of keys without '/' and '%' are what they were
    d = Path(tempfile.mkdtemp(prefix="c19-slash-"))
    try:
        parallelise(sq, [(0, 1), ("a", 2), ((1, "u"), 3), (2.5, 4)], cache=Cache(tmp_dir=d), parallel=False, disable_tqdm=True)
        files = sorted(p.name for p in d.iterdir())
    finally:
        shutil.rmtree(d, ignore_errors=True)
    keep = files == sorted(["0.p", "'a'.p", "(1, 'u').p", "2.5.p"])
    print(("ok      " if keep else "CHANGED ") + f"names of ordinary keys: {files}")
    bad += not keep
    return 1 if bad else 0


if __name__ == "__main__":
    sys.exit(main())
