"""C07 defect: a parameter defined by an InitialAssignment is not among
Model.get_parameter_values(), so _generate_model_code never emits a line for it and the generated
function reads an unbound name (NameError in Python, ReferenceError in TypeScript, E0425 in Rust).

Run:  PYTHONPATH=<repo>/src python findings/c07_assigned_parameter.py
exit 1 = defect present, exit 0 = repaired (fixes/C07-assigned-parameter-value.diff)."""

import logging
import sys

logging.disable(logging.CRITICAL)

from mxlpy import InitialAssignment, Model, fns  # noqa: E402
from mxlpy.meta import generate_model_code_py  # noqa: E402


def twice(a: float) -> float:
    return a * 2.0


m = Model()
m.add_variables({"x1": 2.0})
m.add_parameter("k0", 1.5)
m.add_parameter("k1", InitialAssignment(fn=twice, args=["k0"]))  # k1 = 3.0
m.add_reaction("v1", fn=fns.mass_action_1s, args=["x1", "k1"], stoichiometry={"x1": -1.0})
bad = 0
for free, extra in ((None, []), (["k0"], [1.5])):
    expected = [float(v) for v in m(0.0, [2.0])]
    text = generate_model_code_py(m, free_parameters=free)
    print(text)
    ns: dict = {}
    exec(text, ns)  # noqa: S102
    try:
        got = [float(v) for v in ns["model"](0.0, [2.0], *extra)]
    except NameError as e:
        print("DEFECT: the generated function reads a name it never assigns:", e)
        bad = 1
        continue
    print("model:", expected, "generated:", got)
    if got != expected:
        print("DEFECT: the values differ")
        bad = 1
sys.exit(bad)
