"""C06 finding: a function-local import written with `as` is recorded under the name BEFORE `as`.

`_handle_fn_body` records a function-local `from m import a as b` / `import a.b as c` in ctx.fns / ctx.modules /
ctx.symbols under `alias.name`; `alias.asname` is never read.  So

  * the name Python did NOT bind (`a`) is bound for the translator: a later `a(...)` that Python resolves to the
    module-level `a` is translated with the imported object, and
  * the name Python DID bind (`b`, `c`) is unknown to the translator -- or, when the defining module binds the same
    name at module level, resolves to THAT object.

Both give an expression that differs from the function, without any warning.  The demo needs two small libraries that
define the same names with different meaning: harness/c06_libfast.py (scale(x) = 2 x, consts.K = 2) and
harness/c06_libslow.py (scale(x) = 3 x, consts.K = 5).

Exits 1 while a returned expression differs from the function, 0 when every translation is refused or right.
Run:  PYTHONPATH=<repo>/src:/verif python findings/c06_import_alias.py
"""

from __future__ import annotations

import logging
import sys

import sympy

from harness.c06_libfast import consts, scale
from mxlpy.meta.source_tools import fn_to_sympy

logging.disable(logging.CRITICAL)


def alias_unused(s: float) -> float:
    from harness.c06_libslow import scale as sc  # noqa: F401

    return scale(s)  # Python: the module-level scale, 2 s


def alias_module(s: float) -> float:
    import harness.c06_constsslow as consts  # Python: the LOCAL consts, K = 5

    return consts.K * s


def alias_used(s: float) -> float:
    from harness.c06_libslow import scale as sc

    return sc(s) + scale(s)  # 3 s + 2 s


def no_alias(s: float) -> float:
    from harness.c06_libslow import scale

    return scale(s) + consts.K  # control: 3 s + 2


def main() -> int:
    bad = 0
    s = sympy.Symbol("s")
    for fn in (alias_unused, alias_module, alias_used, no_alias):
        try:
            expr = fn_to_sympy(fn, origin="finding", model_args=[s])
        except Exception as e:  # noqa: BLE001 -- an escaping exception is a visible failure
            print(f"{fn.__name__:14s} refused with {type(e).__name__}")
            continue
        if expr is None:
            print(f"{fn.__name__:14s} refused")
            continue
        wrong = [v for v in (0.5, 1.0, 3.0) if abs(float(expr.subs({s: v})) - fn(v)) > 1e-9]
        print(f"{fn.__name__:14s} -> {expr}   " + (f"WRONG: python {fn(wrong[0])} at s = {wrong[0]}" if wrong else "ok"))
        bad += bool(wrong)
    return 1 if bad else 0


if __name__ == "__main__":
    sys.exit(main())
