"""C09 defect duplicate-index-labels: time-course / protocol scans (scan.* and mc.*, and the outer level
of mc.scan_steady_state) key their results by the row labels of the scan table.  A table with equal
labels (e.g. two tables concatenated without ignore_index) silently loses rows: the block of the LAST
row with a label is shown at the position of the FIRST.

Repaired behaviour (fixes/C09-duplicate-labels-refused.diff): such a table is refused up front with a
ValueError naming the duplicated labels -- a visible refusal instead of silent row loss.

Exits 1 while rows are silently lost, 0 when every entry point refuses the table (or returns all rows).

run:  PYTHONPATH=<repo>/src:/verif /venv/bin/python findings/c09_duplicate_labels.py"""
import contextlib
import io
import sys

import numpy as np
import pandas as pd

from harness import c09_fns as F
from harness.c09_integ import ExactEuler
from mxlpy import Model, make_protocol, mc, scan


def model():
    m = Model()
    m.add_variable("x", 0.0)
    m.add_parameter("q", 1.0)
    m.add_parameter("k", 1.0)
    m.add_reaction("v", fn=F.g_sub, args=["k", "x"], stoichiometry={"x": 1.0})  # x' = k - x
    return m


tab = pd.concat([pd.DataFrame({"k": [1.0, 2.0]}), pd.DataFrame({"k": [3.0]})])  # labels 0, 1, 0
proto = make_protocol([(1.0, {"q": 1.0})])
tps = np.array([0.0, 1.0])
runs = {
    "scan.time_course": lambda: scan.time_course(model(), to_scan=tab, time_points=tps, parallel=False, integrator=ExactEuler),
    "scan.protocol": lambda: scan.protocol(model(), to_scan=tab, protocol=proto, time_points_per_step=1, parallel=False, integrator=ExactEuler),
    "scan.protocol_time_course": lambda: scan.protocol_time_course(model(), to_scan=tab, protocol=proto, time_points=tps, parallel=False, integrator=ExactEuler),
    "mc.time_course": lambda: mc.time_course(model(), mc_to_scan=tab, time_points=tps, max_workers=2, integrator=ExactEuler),
    "mc.protocol": lambda: mc.protocol(model(), mc_to_scan=tab, protocol=proto, time_points_per_step=1, max_workers=2, integrator=ExactEuler),
    "mc.protocol_time_course": lambda: mc.protocol_time_course(model(), mc_to_scan=tab, protocol=proto, time_points=tps, max_workers=2, integrator=ExactEuler),
    "mc.scan_steady_state": lambda: mc.scan_steady_state(model(), to_scan=pd.DataFrame({"q": [1.0]}), mc_to_scan=tab, max_workers=2, integrator=ExactEuler),
}
bad = 0
with contextlib.redirect_stderr(io.StringIO()):
    for name, run in runs.items():
        try:
            v = run().variables
        except ValueError as e:
            print(f"{name}: refused -- {e}")
            continue
        blocks = len(v.groupby(level=0, sort=False)) if name != "mc.scan_steady_state" else len(v)
        lost = blocks != len(tab)
        print(f"{name}: {blocks} result blocks for {len(tab)} rows" + ("  -> ROWS LOST SILENTLY" if lost else ""))
        bad += lost
    # tables with pairwise different labels are still accepted, in input order
    v = scan.time_course(model(), to_scan=tab.reset_index(drop=True), time_points=tps, parallel=False, integrator=ExactEuler).variables
    assert v.index.get_level_values(0).unique().tolist() == [0, 1, 2]
sys.exit(1 if bad else 0)
