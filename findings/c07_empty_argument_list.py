"""C07 defect: "a function that cannot be translated makes generation raise instead of emitting code
that computes something else" -- fn_to_sympy binds a function's parameter names to the call's
arguments with a strict zip, but only `if model_args is not None and len(model_args)`: a call that
passes NO argument skips the binding.  A helper all of whose parameters have default values, called
as `dilution()`, is therefore "translated" with its parameter left behind as a bare symbol; the
generated code reads the model component of the same name (here the unrelated parameter `n`) -- or
an undefined name when there is none -- instead of the default.  A call that passes at least one
argument too few is refused, as it should be.

Run:  PYTHONPATH=<repo>/src python findings/c07_empty_argument_list.py
exit 1 = defect present, exit 0 = repaired (fixes/C07-empty-argument-list-strict.diff)."""

import logging
import sys

logging.disable(logging.CRITICAL)

from mxlpy import Model  # noqa: E402
from mxlpy.meta import (  # noqa: E402
    generate_model_code_jl,
    generate_model_code_py,
    generate_model_code_rs,
    generate_model_code_ts,
)


def dilution(n=2.0):
    return n * 3.0


def decay(s):
    return s * dilution()


def split(p, n):
    return p / n


def build(par_name):
    return (
        Model()
        .add_variables({"s": 2.0, "p": 0.5})
        .add_parameters({par_name: 4.0})
        .add_reaction("decay", decay, args=["s"], stoichiometry={"s": -1, "p": 1})
        .add_reaction("split", split, args=["p", par_name], stoichiometry={"p": -1})
    )


bad = 0
for par_name in ("n", "m"):
    model = build(par_name)
    expected = [float(v) for v in model(0.0, [3.0, 1.0])]
    for lang, gen in (("py", generate_model_code_py), ("ts", generate_model_code_ts),
                      ("rs", generate_model_code_rs), ("jl", generate_model_code_jl)):
        try:
            text = gen(model)
        except Exception as e:  # noqa: BLE001
            print(f"parameter {par_name!r}, {lang}: generation raised {type(e).__name__} (fine)")
            continue
        bad = 1
        line = next((i.strip() for i in text.split("\n") if "3.0" in i), "?")
        print(f"DEFECT parameter {par_name!r}, {lang}: generation did not raise; emitted {line!r}")
        if lang == "py":
            ns: dict = {}
            exec(text, ns)  # noqa: S102
            try:
                got = [float(v) for v in ns["model"](0.0, [3.0, 1.0])]
                print(f"   model returns {expected}, generated function returns {got}")
            except NameError as e:
                print(f"   model returns {expected}, generated function raises NameError: {e}")
sys.exit(bad)
