"""C09 / cached-duplicate-labels: a steady-state scan with a result cache over a table with equal index labels.

Steady-state scans (scan.steady_state, mc.steady_state) report one line per row of the scan table, indexed by the
scanned values; their container is positional, so a table glued together from two grids with pd.concat (row labels
0,1,2,0,1) is a legal scan table.  The result cache, however, names its files after the ROW LABEL
(parallel.py::_load_or_run), so with `cache=` the second row under a label is answered with the first row's cached result:
right length, right index, wrong numbers.

Exit code 0: every line equals its independent run, or the table is refused with a visible error (the repair);
non-zero: a line shows another row's numbers.

Run:  PYTHONPATH=/repo/src /venv/bin/python findings/c09_cached_duplicate_labels.py
"""

from __future__ import annotations

import shutil
import sys
import tempfile
from pathlib import Path

import numpy as np
import pandas as pd

from mxlpy import Model, Simulator, fns, mc, scan
from mxlpy.parallel import Cache


def make_model() -> Model:
    m = Model()
    m.add_parameters({"k0": 1.0, "k1": 1.0, "k2": 2.0})
    m.add_variables({"S": 3.0, "P": 1.0})
    m.add_reaction("v0", fn=fns.constant, args=["k0"], stoichiometry={"S": 1.0})
    m.add_reaction("v1", fn=fns.mass_action_1s, args=["S", "k1"], stoichiometry={"S": -1.0, "P": 1.0})
    m.add_reaction("v2", fn=fns.mass_action_1s, args=["P", "k2"], stoichiometry={"P": -1.0})
    return m


def independent(k1: float) -> float:
    m = make_model()
    m.update_parameters({"k1": k1})
    return float(Simulator(m).simulate_to_steady_state().get_result().unwrap_or_err().variables["S"].iloc[-1])


def main() -> int:
    glued = pd.concat([pd.DataFrame({"k1": [0.5, 1.0, 2.0]}), pd.DataFrame({"k1": [1.2, 1.4]})])  # labels 0,1,2,0,1
    want = [independent(k) for k in glued["k1"]]
    bad = 0
    runs = {
        "scan.steady_state sequential": lambda c: scan.steady_state(make_model(), to_scan=glued, parallel=False, cache=c),
        "mc.steady_state one worker": lambda c: mc.steady_state(make_model(), mc_to_scan=glued, max_workers=1, cache=c),
    }
    for name, call in runs.items():
        d = Path(tempfile.mkdtemp(prefix="c09-cache-"))
        try:
            got = call(Cache(tmp_dir=d)).variables["S"].tolist()
        except ValueError as e:
            print(f"{name}: refused -- {e}")
            continue
        finally:
            shutil.rmtree(d, ignore_errors=True)
        ok = np.allclose(got, want, rtol=1e-6)
        print(f"{name}: labels {list(glued.index)}\n  cached scan      S = {np.round(got, 4).tolist()}\n  independent runs S = {np.round(want, 4).tolist()}"
              f"  {'ok' if ok else '<-- rows 3,4 show the results of rows 0,1'}")
        bad += 0 if ok else 1
    # control: without a cache the same table is scanned correctly
    got = scan.steady_state(make_model(), to_scan=glued, parallel=False).variables["S"].tolist()
    if not np.allclose(got, want, rtol=1e-6):
        print("control without cache differs:", got)
        bad += 1
    print("FAIL" if bad else "OK")
    return 1 if bad else 0


if __name__ == "__main__":
    sys.exit(main())
