"""C03 -- containers that cross the Model API must be values (exit 1 on the defect, 0 when repaired).

Run:  PYTHONPATH=<repo>/src python findings/c03_containers.py

Defect 1 (C03-query-results-alias-cache): get_initial_conditions() / get_parameter_values() return the memoised
cache's own dicts.  A caller that changes the dict it was handed changes what later queries, __call__ and new
Simulators answer -- although no model edit happened and the content is unchanged.

Defect 2 (C03-mutators-keep-caller-lists): add_derived / update_derived / add_reaction / update_reaction /
add_readout keep the list passed as args=, add_surrogate / update_surrogate the objects passed as args= / outputs= /
stoichiometries=.  Changing such an object after the call edits the model without any mutator and without dropping
the cache: raw content and answers disagree, and a list re-used for the next component silently rewires the first.

Every scenario compares with a freshly built model with the same content (the statement of C03).
Repair: fixes/C03-containers-are-values.diff."""

from __future__ import annotations

import logging
import sys

from mxlpy import Model

logging.disable(logging.CRITICAL)


def rate(s: float, k: float) -> float:
    return k * s


def twice(k: float) -> float:
    return 2.0 * k


def build() -> Model:
    m = Model()
    m.add_variables({"x": 1.0, "y": 0.0})
    m.add_parameters({"k1": 2.0, "k2": 5.0})
    m.add_reaction("v1", rate, args=["x", "k1"], stoichiometry={"x": -1.0, "y": 1.0})
    return m


def answers(m: Model) -> dict:
    def ask(f):  # noqa: ANN001, ANN202
        try:
            return f()
        except Exception as e:  # noqa: BLE001 -- a corrupted cache may make a query raise
            return f"{type(e).__name__}"

    return {
        "ic": ask(lambda: dict(m.get_initial_conditions())),
        "pars": ask(lambda: dict(m.get_parameter_values())),
        "args": ask(lambda: m.get_args().to_dict()),
        "rhs": ask(lambda: m.get_right_hand_side().to_dict()),
        "call": ask(lambda: m(0.0, [1.0, 0.0])),
    }


failures: list[str] = []
expected = answers(build())

# 1a  the caller post-processes the initial conditions it asked for
m = build()
ic = m.get_initial_conditions()
ic["x"] = 99.0
ic.pop("y")
if answers(m) != expected:
    failures.append("1a: writing to the dict returned by get_initial_conditions() changed later answers")

# 1b  ... the parameter values (e.g. to build a variant parameter set)
m = build()
pars = m.get_parameter_values()
pars["k1"] = 7.0
pars["extra"] = 1.0
if answers(m) != expected:
    failures.append("1b: writing to the dict returned by get_parameter_values() changed later answers")

# 1c  two getters, one object: what was handed out earlier changes when the model is asked again
m = build()
first = m.get_initial_conditions()
first["x"] = 3.0
if m.get_initial_conditions() != {"x": 1.0, "y": 0.0}:
    failures.append("1c: get_initial_conditions() answers the caller's own edits back")

# 2a  one args list re-used while building components in a loop
m = Model()
m.add_parameters({"k1": 2.0, "k2": 5.0})
args = ["k1"]
m.add_derived("d1", twice, args=args)
m.get_args()  # populate the cache
args[0] = "k2"
m.add_readout("r1", twice, args=["k1"])  # any edit: drops the cache
got = m.get_args().to_dict()
fresh = Model()
fresh.add_parameters({"k1": 2.0, "k2": 5.0})
fresh.add_derived("d1", twice, args=["k1"])
fresh.add_readout("r1", twice, args=["k1"])
if got != fresh.get_args().to_dict():
    failures.append(f"2a: d1 was rewired by the caller changing its own list after add_derived: {got}")

# 2b  same without any edit in between: content and memoised answers disagree
m = Model()
m.add_parameters({"k1": 2.0, "k2": 5.0})
args = ["k1"]
m.add_derived("d1", twice, args=args)
before = (m.get_raw_derived()["d1"].args, m.get_args().to_dict())
args[0] = "k2"
after = (m.get_raw_derived()["d1"].args, m.get_args().to_dict())
if before != after:
    failures.append(f"2b: the model changed without any edit: {before} -> {after}")

# 2c  reactions: args= of add_reaction / update_reaction
m = build()
new_args = ["x", "k1"]
m.update_reaction("v1", args=new_args)
m.get_right_hand_side()
new_args[1] = "k2"
if answers(m) != expected:
    failures.append("2c: update_reaction(args=...) kept the caller's list")

# 2d  surrogates: outputs= / stoichiometries= of add_surrogate
from mxlpy.surrogates.abstract import MockSurrogate  # noqa: E402

m = build()
outs = ["v2"]
sto = {"v2": {"y": -1.0}}
m.add_surrogate("s", MockSurrogate(fn=lambda x: (x,), args=["x"], outputs=["o"], stoichiometries={}), outputs=outs, stoichiometries=sto)
def sur_view(m: Model):  # noqa: ANN201
    try:
        rhs = m.get_right_hand_side().to_dict()
    except Exception as e:  # noqa: BLE001
        rhs = type(e).__name__
    s = m.get_raw_surrogates()["s"]
    return dict(m.ids), rhs, list(s.outputs), {k: dict(v) for k, v in s.stoichiometries.items()}


ref = sur_view(m)
outs.append("v3")
sto["v2"]["x"] = 5.0
if sur_view(m) != ref:
    failures.append(f"2d: add_surrogate kept the caller's outputs= / stoichiometries= objects: {ref} -> {sur_view(m)}")

if failures:
    print("FAIL")
    for f in failures:
        print(" -", f)
    sys.exit(1)
print("OK: containers cross the Model API as values")
