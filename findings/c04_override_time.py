"""C04 defect (repair proposed in fixes/C04-override-time.diff): after update_variable(s) following a
simulation the restarted integrator runs in SHIFTED time (its own t = 0) and hands that shifted
time to the model, so every rate law / derived quantity that reads `time` is evaluated at the
wrong time for the rest of the simulation.

  dx/dt = time;  simulate(2) -> x(2) = 2;  update_variable(x, 2);  simulate(4)
  the solution from x(2) = 2 is x(4) = 2 + (16 - 4)/2 = 8; the defect reports 2 + (4 - 0)/2 = 4.

Exit 1 while the defect is present, 0 once repaired.
Run: PYTHONPATH=<repo>/src /venv/bin/python findings/c04_override_time.py
"""
import sys

from mxlpy import Model, Simulator
from mxlpy.integrators import Scipy


def v(time, a):
    return a * time


m = Model().add_variables({"x": 0.0}).add_parameters({"a": 1.0})
m.add_reaction("v", fn=v, args=["time", "a"], stoichiometry={"x": 1})
bad = 0
for jac in (False, True):
    s = Simulator(m, integrator=Scipy, use_jacobian=jac).simulate(2, steps=1).update_variable("x", 2.0).simulate(4, steps=1)
    x4 = float(s.get_result().unwrap_or_err().variables.iloc[-1]["x"])
    print(f"use_jacobian={jac}: x(4) = {x4:.6f}  (solution continued from x(2)=2 in absolute time: 8)")
    if abs(x4 - 8.0) > 1e-5:
        print("DEFECT: the model saw shifted time after the override")
        bad = 1
sys.exit(bad)
