"""C17 -- demonstrations of the recorded findings of mxlpy.sbml.read (exit 1 while any of them reproduces).

Run:  cd /verif && PYTHONPATH=/repo/src:/verif PYTHONHASHSEED=0 NO_COLOR=1 /venv/bin/python findings/c17_import_findings.py

 1. C17-function-key-collision        generated defs init_<k> / <rxn>_stoich_<k> collide with legal ids
 2. C17-reserved-name-capture         ids `math`, `Model`, ... capture names the generated module needs
 3. C17-same-stem-overwrite           `My Model.xml` and `my-model.xml` share module file and sys.modules entry
 4. C17-keyword-escape-not-injective  `if` and `if_` are merged (inside pysbml; external)
The documents are written with python-libsbml by harness/c17_sbml.py and judged by its independent reading
of SBML semantics (exact Fractions).
"""

from __future__ import annotations

import sys

from harness import c17, common


def main() -> int:
    common.quiet_impl_logging()
    sess = c17.Session("c17findings")
    bad = 0
    try:
        for name in c17.WITNESSES:
            r = c17.replay_witness(sess, {"kind": "finding:doc", "name": name})
            print(f"{name:28s} {'REPRODUCES: ' + r if r else 'ok'}")
            bad += bool(r)
        r = c17.replay_witness(sess, {"kind": "finding:same-stem"})
        print(f"{'same_stem':28s} {'REPRODUCES: ' + r if r else 'ok'}")
        bad += bool(r)
    finally:
        sess.close()
    return 1 if bad else 0


if __name__ == "__main__":
    sys.exit(main())
