"""C05 defect: a compound with 0 label positions loses its initial amount when an initial label is requested.

LabelMapper.build_model names the variable that receives the amount  k + "__" + pattern ; for a compound
listed in label_variables with 0 positions the pattern is empty, so the amount is stored in a stray
variable 'A__' while 'A' (the only isotopomer, the one A__total sums) starts at 0.
Exit 1 while the defect is present, 0 once repaired (fixes/C05-zero-label-initial.diff).

Run: PYTHONPATH=<repo>/src /venv/bin/python findings/c05_zero_label_initial.py
"""
import sys

from mxlpy import LabelMapper, Model

m = Model().add_variables({"A": 4.0})
lm = LabelMapper(m, label_variables={"A": 0}, label_maps={}).build_model(initial_labels={"A": []})
ic = lm.get_initial_conditions()
print("initial conditions:", ic)
ok = ic == {"A": 4.0}
print("total of A preserved, no stray variable" if ok else "DEFECT: amount of A not preserved / stray variable")
sys.exit(0 if ok else 1)
