"""C12 defect: the state-dependent-coefficient statement of to_symbolic_model,

    eqs[cpd] = eqs.get(cpd, 0.0) + fn_to_sympy(der.fn, [symbols[i] for i in der.args] * rxns[rxn])

has its parenthesis in the wrong place: the argument list is multiplied by the rate expression and
passed as `origin`.  For an ordinary rate `list * expr` raises TypeError (every model with a
state-dependent computed coefficient is refused).  When the translated rate is a SymPy Integer
(e.g. minus(a, a) = 0, div(a, a) = 1) Python REPEATS the list instead, fn_to_sympy is called without
model arguments and returns the coefficient function's unsubstituted body: the returned equations
contain the function's own argument symbol (`x`) -- wrong equations instead of an exception (and
silently wrong numbers if the model happens to have a quantity called `x`).

Run:  PYTHONPATH=<repo>/src python findings/c12_dynamic_coefficient.py
exit 1 = defect present, exit 0 = repaired (fixes/C12-dynamic-coefficient.diff)."""

import logging
import sys

logging.disable(logging.CRITICAL)

import sympy  # noqa: E402
from mxlpy import Derived, Model, fns  # noqa: E402
from mxlpy.symbolic import to_symbolic_model  # noqa: E402


def build(rate_fn, rate_args) -> Model:
    m = Model()
    m.add_variables({"a": 1.0, "b": 2.0})
    m.add_parameters({"k": 3.0})
    m.add_reaction("r1", fn=rate_fn, args=rate_args, stoichiometry={"a": Derived(fn=fns.twice, args=["b"]), "b": -1})
    m.add_reaction("r2", fn=fns.mass_action_1s, args=["b", "k"], stoichiometry={"b": -1, "a": 1})
    return m


bad = False
for label, fn, args in (("integer rate minus(a, a)", fns.minus, ["a", "a"]), ("ordinary rate k*a", fns.mass_action_1s, ["a", "k"])):
    m = build(fn, args)
    num = [float(v) for v in m(0.0, [1.0, 2.0])]
    try:
        sm = to_symbolic_model(m)
    except Exception as e:  # noqa: BLE001
        print(f"{label}: conversion raises {type(e).__name__}: {e}  (numeric rhs {num})")
        bad = True
        continue
    known = set(sm.variables.values()) | set(sm.parameters.values())
    stray = {s for e in sm.eqs for s in sympy.sympify(e).free_symbols} - known
    print(f"{label}: eqs = {sm.eqs}")
    if stray:
        print(f"   equations mention {stray}: not a variable or parameter of the model")
        bad = True
        continue
    f = sympy.lambdify([list(sm.variables.values()), list(sm.parameters.values())], sm.eqs)
    sym = [float(v) for v in f([1.0, 2.0], [3.0])]
    print(f"   symbolic {sym} numeric {num}")
    bad = bad or any(abs(x - y) > 1e-9 for x, y in zip(sym, num, strict=True))
print("DEFECT PRESENT" if bad else "ok")
sys.exit(1 if bad else 0)
