"""C03: edit histories. Each scenario compares the edited model with a freshly built model of the same
content, or checks that a rejected edit changed nothing. Exits non-zero listing the failing scenarios."""
import copy
from mxlpy import Model
from mxlpy.surrogates.abstract import MockSurrogate
from mxlpy.types import InitialAssignment
import pandas as pd

def one(a): return (a,)
def two(a): return (a, 2 * a)
def dsum(d): return float(d.sum())
fails = []

def snapshot(m):
    return (dict(m.ids), sorted(m.get_raw_parameters()), sorted(m.get_raw_variables()), sorted(m.get_raw_derived()),
            sorted(m.get_raw_reactions()), sorted(m.get_raw_surrogates()), sorted(m._data),
            {k: (list(v.args), list(v.outputs)) for k, v in m.get_raw_surrogates().items()})

def rejected_changes_nothing(label, m, edit):
    before = snapshot(m)
    try:
        edit(m)
    except (KeyError, NameError):
        if snapshot(m) != before:
            fails.append(f"{label}: rejected edit changed the model: {before} -> {snapshot(m)}")
        return
    fails.append(f"{label}: edit unexpectedly accepted")

# (a) stale cache: remove_surrogate after a query
m = Model().add_variable("x", 1.0).add_surrogate("s", MockSurrogate(fn=one, args=["x"], outputs=["o"], stoichiometries={"o": {"x": -1.0}}))
m.get_args()
m.remove_surrogate("s")
try:
    got = m.get_args().to_dict()
    if got != {"time": 0.0, "x": 1.0}: fails.append(f"stale after remove_surrogate: {got}")
except Exception as e:
    fails.append(f"stale after remove_surrogate: {type(e).__name__} {e}")
# (a2) update_data after a query: initial assignment on data must be re-evaluated
m = Model().add_data("d", pd.Series([1.0, 2.0])).add_parameter("p", InitialAssignment(fn=dsum, args=["d"])).add_variable("x", 1.0)
m.get_args(); m.update_data("d", pd.Series([10.0, 20.0]))
if m.get_args()["p"] != 30.0: fails.append(f"stale after update_data: p={m.get_args()['p']}")
# (b) remove_parameter on a variable name
rejected_changes_nothing("remove_parameter(variable)", Model().add_variable("x", 1.0).add_parameter("p", 1.0), lambda m: m.remove_parameter("x"))
rejected_changes_nothing("remove_variable(parameter)", Model().add_variable("x", 1.0).add_parameter("p", 1.0), lambda m: m.remove_variable("p"))
rejected_changes_nothing("remove_derived(parameter)", Model().add_parameter("p", 1.0), lambda m: m.remove_derived("p"))
rejected_changes_nothing("remove_reaction(parameter)", Model().add_parameter("p", 1.0), lambda m: m.remove_reaction("p"))
rejected_changes_nothing("remove_readout(parameter)", Model().add_parameter("p", 1.0), lambda m: m.remove_readout("p"))
rejected_changes_nothing("remove_data(parameter)", Model().add_parameter("p", 1.0), lambda m: m.remove_data("p"))
rejected_changes_nothing("remove_surrogate(parameter)", Model().add_parameter("p", 1.0), lambda m: m.remove_surrogate("p"))
# (c) update_data on an unknown name
rejected_changes_nothing("update_data(unknown)", Model().add_parameter("p", 1.0), lambda m: m.update_data("nope", pd.Series([1.0])))
# (d) add_surrogate whose second output collides
rejected_changes_nothing("add_surrogate(colliding output)", Model().add_variable("x", 1.0).add_parameter("o2", 1.0),
                         lambda m: m.add_surrogate("s", MockSurrogate(fn=two, args=["x"], outputs=["o1", "o2"])))
# (e) make_parameter_dynamic naming an unknown reaction
rejected_changes_nothing("make_parameter_dynamic(unknown reaction)", Model().add_parameter("p", 1.0),
                         lambda m: m.make_parameter_dynamic("p", stoichiometries={"nope": 1.0}))
# (f) update_surrogate: new outputs, no new surrogate object
m = Model().add_variable("x", 1.0).add_surrogate("s", MockSurrogate(fn=two, args=["x"], outputs=["o1", "o2"]))
try:
    m.update_surrogate("s", outputs=["n1", "n2"])
    if set(m.ids) != {"x", "s", "n1", "n2"}: fails.append(f"update_surrogate(outputs): ids {m.ids}")
except Exception as e:
    fails.append(f"update_surrogate(outputs=...) rejected a legal edit: {type(e).__name__} {e}")
rejected_changes_nothing("update_surrogate(colliding output)", Model().add_variable("x", 1.0).add_parameter("p", 1.0).add_surrogate("s", MockSurrogate(fn=two, args=["x"], outputs=["o1", "o2"])),
                         lambda m: m.update_surrogate("s", outputs=["n1", "p"]))
for f in fails: print("FAIL", f)
print(f"{len(fails)} failing scenario(s)")
raise SystemExit(1 if fails else 0)
