"""C12 finding: to_symbolic_model folds the CURRENT value of a parameter-only computed (Derived)
stoichiometric coefficient into the symbolic equations as a number.  The symbolic model is symbolic
in every parameter except through such coefficients: evaluated at another parameter setting (or, in
the simulator, after update_parameter without rebuilding the Jacobian) it disagrees with the numeric
model.

Run:  PYTHONPATH=<repo>/src python findings/c12_frozen_coefficient.py
exit 1 = defect present, exit 0 = repaired (coefficient kept symbolic)."""

import logging
import sys

logging.disable(logging.CRITICAL)

import sympy  # noqa: E402
from mxlpy import Derived, Model, fns  # noqa: E402
from mxlpy.symbolic import to_symbolic_model  # noqa: E402

m = Model()
m.add_variables({"x1": 1.0, "x2": 0.5})
m.add_parameters({"n": 1.0, "k": 2.0})
m.add_reaction(
    "r1", fn=fns.mass_action_1s, args=["x1", "k"],
    stoichiometry={"x1": -1, "x2": Derived(fn=fns.twice, args=["n"])},
)
sm = to_symbolic_model(m)  # converted at n = 1
print("symbolic equations:", sm.eqs)
m.update_parameter("n", 5.0)
f = sympy.lambdify([list(sm.variables.values()), list(sm.parameters.values())], sm.eqs)
pv = m.get_parameter_values()
sym = [float(v) for v in f([1.0, 0.5], [pv[k] for k in sm.parameters])]
num = [float(v) for v in m(0.0, [1.0, 0.5])]
print("at n = 5: symbolic", sym, "numeric", num)
bad = any(abs(a - b) > 1e-9 for a, b in zip(sym, num, strict=True))
print("DEFECT PRESENT" if bad else "ok")
sys.exit(1 if bad else 0)
