"""C18 finding c18-zero-state: elasticities / response coefficients at a value that is exactly 0 are NaN.

The routines displace a scanned value RELATIVELY (old * (1 +- displacement)) and divide by 2 * displacement * old.
For old == 0 both points coincide and the quotient is 0/0, so the whole column is NaN although the partial derivative
is perfectly well defined (here d v0/d x0 = k0 = 2, d v0/d k1 ... ).  Exits 1 while the defect is present, 0 once
fixes/C18-zero-state.diff is applied.

    PYTHONPATH=<repo>/src python findings/c18_zero_state.py
"""
import math
import sys

from mxlpy import Model, mca


def mass_action(k: float, x: float) -> float:
    return k * x


def constant(k: float) -> float:
    return k


def model() -> Model:
    m = Model()
    m.add_variables({"x0": 0.0, "x1": 2.0})
    m.add_parameters({"k0": 2.0, "k1": 1.0, "kin": 0.0})
    m.add_reaction("v0", fn=mass_action, args=["k0", "x0"], stoichiometry={"x0": -1.0, "x1": 1.0})
    m.add_reaction("v1", fn=mass_action, args=["k1", "x1"], stoichiometry={"x1": -1.0})
    m.add_reaction("vin", fn=constant, args=["kin"], stoichiometry={"x0": 1.0})
    return m


bad = []

e = mca.variable_elasticities(model(), normalized=False)
print("variable_elasticities(normalized=False) at x0 = 0:\n", e, "\n")
for rxn, want in (("v0", 2.0), ("v1", 0.0), ("vin", 0.0)):
    got = float(e.loc[rxn, "x0"])
    if not (math.isfinite(got) and abs(got - want) < 1e-6):
        bad.append(f"d {rxn}/d x0 = {got}, expected {want}")

p = mca.parameter_elasticities(model(), to_scan=["kin"], normalized=False)
print("parameter_elasticities(normalized=False) at kin = 0:\n", p, "\n")
for rxn, want in (("v0", 0.0), ("v1", 0.0), ("vin", 1.0)):
    got = float(p.loc[rxn, "kin"])
    if not (math.isfinite(got) and abs(got - want) < 1e-6):
        bad.append(f"d {rxn}/d kin = {got}, expected {want}")

# the scaled coefficient value/flux * dv/dx at a zero value is 0 where the flux does not vanish
m = model()
m.update_parameters({"kin": 3.0})
s = mca.variable_elasticities(m, normalized=True)
got = float(s.loc["vin", "x0"])
print("scaled elasticity of vin (= kin = 3, independent of x0) w.r.t. x0 at x0 = 0:", got)
if not (math.isfinite(got) and abs(got) < 1e-9):
    bad.append(f"scaled elasticity of vin w.r.t. x0 = {got}, expected 0")

# response coefficients w.r.t. a parameter whose value is 0: steady state x0 = kin/k0, x1 = kin/k1
rc = mca.response_coefficients(model(), to_scan=["kin"], normalized=False, parallel=False, disable_tqdm=True)
print("response_coefficients(normalized=False) w.r.t. kin = 0:\n", rc.variables, "\n")
for var, want in (("x0", 0.5), ("x1", 1.0)):
    got = float(rc.variables.loc[var, "kin"])
    if not (math.isfinite(got) and abs(got - want) < 5e-2):
        bad.append(f"d {var}_ss/d kin = {got}, expected {want}")

# everything at non-zero values is untouched by the repair (bit-identical code path)
m = model()
m.update_variables({"x0": 1.5})
e2 = mca.variable_elasticities(m, normalized=True)
if abs(float(e2.loc["v0", "x0"]) - 1.0) > 1e-6:
    bad.append("scaled elasticity at a non-zero value is wrong")

if bad:
    print("DEFECT PRESENT:")
    for b in bad:
        print("  -", b)
    sys.exit(1)
print("ok: coefficients at a zero value equal the partial derivatives")
