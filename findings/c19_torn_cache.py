"""C19: a caching run killed while a result file is being written must not poison the rerun.

Exits non-zero on the defect (rerun raises EOFError / UnpicklingError because the half-written
<key>.p is taken for a cached result), zero when repaired (fixes/C19-atomic-save.diff).

    PYTHONPATH=<repo>/src python findings/c19_torn_cache.py
"""
import os
import shutil
import sys
import tempfile
from pathlib import Path

from mxlpy.parallel import Cache, parallelise


def sq(x):
    return x * x


class _DieAfterOpen:
    """kill the process right after the first open(..., 'wb') below the cache directory, i.e. at the
    instant the (direct) write has created an empty result file"""

    def __init__(self, root):
        self.root, self.real = str(root), Path.open

    def __enter__(self):
        me = self

        def opener(path, mode="r", *a, **kw):
            fp = me.real(path, mode, *a, **kw)
            if "w" in mode and str(path).startswith(me.root):
                os._exit(77)
            return fp

        Path.open = opener

    def __exit__(self, *a):
        Path.open = self.real


def main() -> int:
    d = Path(tempfile.mkdtemp(prefix="c19-demo-", dir=os.environ.get("C19_DEMO_DIR", "/var/tmp")))
    inputs = [(1, 2), (2, 3)]
    try:
        pid = os.fork()
        if pid == 0:  # the interrupted run
            with _DieAfterOpen(d):
                parallelise(sq, inputs, cache=Cache(d), parallel=False, disable_tqdm=True)
            os._exit(0)
        _, status = os.waitpid(pid, 0)
        print("interrupted run exit code:", os.waitstatus_to_exitcode(status), "| directory:", sorted(p.name + f" ({p.stat().st_size} B)" for p in d.iterdir()))
        try:
            res = parallelise(sq, inputs, cache=Cache(d), parallel=False, disable_tqdm=True)
        except Exception as e:  # noqa: BLE001
            print(f"FAIL: the rerun raised {type(e).__name__}: {e}")
            return 1
        if res != [(1, 4), (2, 9)]:
            print("FAIL: the rerun returned", res)
            return 1
        print("OK: the rerun returned", res)
        return 0
    finally:
        shutil.rmtree(d, ignore_errors=True)


if __name__ == "__main__":
    sys.exit(main())
