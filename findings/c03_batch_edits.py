"""C03 -- a rejected BATCH edit must change nothing (fixes/C03-batch-edits-atomic.diff).

The seven batch forms of mxlpy.Model (add_parameters, remove_parameters, update_parameters, scale_parameters,
add_variables, remove_variables, update_variables) were plain folds of the single-item mutators: a batch rejected at
item k kept items 1..k-1 applied.  Exit status 1 while any scenario still changes the model, 0 when repaired.

    PYTHONPATH=<repo>/src python findings/c03_batch_edits.py
"""
import sys

from mxlpy import Model
from mxlpy.types import InitialAssignment


def ident(a):
    return a


def snapshot(m: Model):
    return (
        dict(m.ids),
        {k: (v.value if not isinstance(v.value, InitialAssignment) else "ia") for k, v in m.get_raw_parameters().items()},
        {k: v.initial_value for k, v in m.get_raw_variables().items()},
    )


def base() -> Model:
    return Model().add_parameter("a", 1.0).add_parameter("b", 2.0).add_variable("x", 1.0).add_variable("y", 2.0)


def broken() -> Model:
    # 'p' is assigned from 'a'; the derived quantity 'd' misses its argument, so no cache can be built
    m = base()
    m.add_parameter("p", InitialAssignment(fn=ident, args=["a"]))
    m.add_derived("d", ident, args=["nope"])
    return m


SCENARIOS = [
    ("add_parameters, protected name second", base, lambda m: m.add_parameters({"c": 3.0, "time": 1.0}), KeyError),
    ("add_parameters, duplicate second", base, lambda m: m.add_parameters({"c": 3.0, "x": 1.0}), NameError),
    ("remove_parameters, unknown second", base, lambda m: m.remove_parameters(["a", "zz"]), KeyError),
    ("remove_parameters, repeated name", base, lambda m: m.remove_parameters(["a", "a"]), KeyError),
    ("update_parameters, unknown second", base, lambda m: m.update_parameters({"a": 5.0, "zz": 1.0}), KeyError),
    ("scale_parameters, unknown second", base, lambda m: m.scale_parameters({"a": 5.0, "zz": 1.0}), KeyError),
    ("scale_parameters, cache cannot be built at the second item", broken, lambda m: m.scale_parameters({"a": 5.0, "p": 2.0}), Exception),
    ("add_variables, duplicate second", base, lambda m: m.add_variables({"z": 3.0, "a": 1.0}), NameError),
    ("remove_variables, unknown second (iterator argument)", base, lambda m: m.remove_variables(iter(["x", "zz"])), KeyError),
    ("update_variables, unknown second", base, lambda m: m.update_variables({"x": 5.0, "zz": 1.0}), KeyError),
]

bad = 0
for title, mk, edit, exc in SCENARIOS:
    m = mk()
    before = snapshot(m)
    try:
        edit(m)
        print(f"UNEXPECTED {title}: accepted")
        bad += 1
        continue
    except exc as e:
        err = type(e).__name__
    after = snapshot(m)
    if after != before:
        bad += 1
        print(f"DEFECT     {title}: {err} raised, but the model changed\n             before {before}\n             after  {after}")
    else:
        print(f"ok         {title}: {err} raised, model unchanged")

# accepted batches behave as before
m = base().add_parameters({"c": 3.0}).update_parameters({"a": 4.0}).scale_parameters({"a": 2.0, "b": 3.0})
m.remove_parameters(["c"]).add_variables({"z": 0.0}).update_variables({"x": 7.0}).remove_variables(iter(["z"]))
ok = m.get_parameter_values() == {"a": 8.0, "b": 6.0} and m.get_initial_conditions() == {"x": 7.0, "y": 2.0}
print("ok         accepted batches" if ok else f"UNEXPECTED accepted batches: {m.get_parameter_values()} {m.get_initial_conditions()}")
sys.exit(1 if bad or not ok else 0)
