"""C09 known findings (not repaired; see known_findings.d/C09.json).  Prints each, exits 1 while at
least one is present.

run:  PYTHONPATH=<repo>/src:/verif /venv/bin/python findings/c09_known_findings.py"""
import contextlib
import io
import sys

import numpy as np
import pandas as pd

from harness import c09_fns as F
from harness.c09_integ import ExactEuler
from mxlpy import Model, scan

present = 0


def guard_model():
    m = Model()
    m.add_variable("x", 2.0)
    m.add_parameter("k", 1.0)
    m.add_reaction("v", fn=F.g_guard, args=["k", "x"], stoichiometry={"x": -1.0})  # k*(x/x): ZeroDivisionError at x == 0
    return m


def sq_model():
    m = Model()
    m.add_variable("x", 0.0)
    m.add_reaction("v", fn=F.g_sq, args=["x"], stoichiometry={"x": 1.0})
    return m


with contextlib.redirect_stderr(io.StringIO()):
    # 1. a row for which the model cannot be evaluated at t=0 crashes the whole scan
    try:
        scan.time_course(guard_model(), to_scan=pd.DataFrame({"x": [2.0, 0.0, 1.0]}), time_points=np.array([0.0, 1.0]),
                         parallel=False, integrator=ExactEuler).variables
        print("1. unevaluable row: scan returned (placeholder) -- finding gone")
    except ZeroDivisionError:
        present += 1
        print("1. unevaluable row: the whole scan raises ZeroDivisionError instead of yielding a NaN placeholder row")
    # 2. duplicate index labels lose rows
    r = scan.time_course(sq_model(), to_scan=pd.DataFrame({"x": [0.0, 1.0, 0.0]}, index=[5, 7, 5]),
                         time_points=np.array([0.0, 1.0]), parallel=False, integrator=ExactEuler)
    n = len(r.variables.index.get_level_values(0).unique())
    blocks = len(r.variables) // 2
    print(f"2. duplicate labels: {blocks} result blocks for 3 rows")
    present += blocks != 3
    # 3. time-course placeholder misses the start point when the time points do not start at 0
    r = scan.time_course(sq_model(), to_scan=pd.DataFrame({"x": [0.0, 100.0]}), time_points=np.array([1.0, 2.0]),
                         parallel=False, integrator=ExactEuler)
    v = r.variables
    a, b = v.loc[0].index.tolist(), v.loc[1].index.tolist()
    print(f"3. time points [1, 2]: successful row has t={a}, failing row's placeholder t={b}")
    present += a != b
sys.exit(1 if present else 0)
