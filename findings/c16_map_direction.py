"""C16 defect: LinearLabelMapper reads an atom-transition map in the inverse direction.

Documented reading (docs/label-models, LabelMapper): product position i carries the label of substrate
position map[i].  LinearLabelMapper.build_model used _map_substrates_to_labelmap (res[map[j]] = substrate j),
i.e. the inverse permutation; identity and reversal maps are involutions and cannot see it.
A(3 C) -> B(3 C) with the 3-cycle [1, 2, 0]: B[0] <- A[1], B[1] <- A[2], B[2] <- A[0].
Exit 1 while the defect is present, 0 once repaired (fixes/C16-map-direction.diff).

Run: PYTHONPATH=<repo>/src /venv/bin/python findings/c16_map_direction.py
"""
import sys

import pandas as pd

from mxlpy import LabelMapper, LinearLabelMapper, Model


def ma(s, k):
    return k * s


m = Model().add_variables({"A": 1.0, "B": 1.0}).add_parameters({"k": 1.0})
m.add_reaction("v", fn=ma, args=["A", "k"], stoichiometry={"A": -1, "B": 1})
kw = {"label_variables": {"A": 3, "B": 3}, "label_maps": {"v": [1, 2, 0]}}
iso = LabelMapper(m, **kw).build_model()
lin = LinearLabelMapper(m, **kw).build_model(pd.Series({"A": 1.0, "B": 1.0}), pd.Series({"v": 1.0}))
iso_rxn = iso.get_raw_reactions()["v__100"].stoichiometry
lin_args = {k: r.args[0] for k, r in lin.get_raw_reactions().items()}
print("isotopomer model: A__100 ->", [k for k, c in iso_rxn.items() if c > 0])
print("linear model: product position i <-", lin_args)
want = {"v__0": "A__1", "v__1": "A__2", "v__2": "A__0"}
ok = lin_args == want and iso_rxn == {"A__100": -1, "B__001": 1}
print("both mappers read the map in the documented direction" if ok else f"DEFECT: linear mapper should give {want}")
sys.exit(0 if ok else 1)
