"""C19: a cached run must return the uncached results -- also for keys whose str() coincide.

The default Cache.name_fn was f"{k}.p": the different keys 1 and "1" (1.5 and "1.5", (1, 'a') and
"(1, 'a')", ...) share ONE file, so on a fresh cache directory the second key is silently answered
with the first key's result.  Exits non-zero on the defect, zero when repaired
(fixes/C19-name-fn.diff: f"{k!r}.p").

    PYTHONPATH=<repo>/src python findings/c19_name_collision.py
"""
import shutil
import sys
import tempfile
from pathlib import Path

from mxlpy.parallel import Cache, parallelise


def sq(x):
    return x * x


CASES = [
    [(1, 2), ("1", 3)],
    [(1.5, 2), ("1.5", 3)],
    [((1, "a"), 2), ("(1, 'a')", 3)],
    [("True", 2), (True, 3)],
    [(None, 2), ("None", 3)],
]


def main() -> int:
    bad = 0
    for inputs in CASES:
        d = Path(tempfile.mkdtemp(prefix="c19-names-"))
        try:
            plain = parallelise(sq, inputs, cache=None, parallel=False, disable_tqdm=True)
            cached = parallelise(sq, inputs, cache=Cache(tmp_dir=d), parallel=False, disable_tqdm=True)
            again = parallelise(sq, inputs, cache=Cache(tmp_dir=d), parallel=False, disable_tqdm=True)
            files = sorted(p.name for p in d.iterdir())
        finally:
            shutil.rmtree(d, ignore_errors=True)
        ok = plain == cached == again and len(files) == len(inputs)
        print(("ok      " if ok else "DEFECT  ") + f"keys {[k for k, _ in inputs]!r}: uncached {plain} cached {cached} files {files}")
        bad += not ok
    # the default index of a scan keeps its readable names
    d = Path(tempfile.mkdtemp(prefix="c19-names-"))
    try:
        parallelise(sq, [(0, 1), (1, 2), (2, 3)], cache=Cache(tmp_dir=d), parallel=False, disable_tqdm=True)
        files = sorted(p.name for p in d.iterdir())
    finally:
        shutil.rmtree(d, ignore_errors=True)
    if files != ["0.p", "1.p", "2.p"]:
        print(f"DEFECT  int keys 0, 1, 2 are stored as {files}")
        bad += 1
    return 1 if bad else 0


if __name__ == "__main__":
    sys.exit(main())
