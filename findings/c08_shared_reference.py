"""C08 finding shared-stoichiometry-reference: two computed coefficients of ONE species.

`_create_sbml_reactions` names the species reference (and its assignment rule) `<species>ref`, whatever the reaction.
When a species has a computed (Derived) coefficient in two reactions both write a rule for the same id: duplicate id,
duplicate rule, and after import both coefficients take the value of the last rule.

Exit 1 while the derivative changes in the round trip, 0 when every computed coefficient has its own reference
(fixes/C08-stoichiometry-reference-per-coefficient.diff: the first keeps `<species>ref`, later ones are numbered).
"""

from __future__ import annotations

import sys
import tempfile
from pathlib import Path

import numpy as np

from mxlpy import Derived, Model
from mxlpy.sbml import read, write


def rate(x):
    return x


def half():
    return 0.5


def minus_three_halves():
    return -1.5


def scaled(k):
    return k * 2


def build() -> Model:
    return (
        Model()
        .add_parameter("k", 1.25)
        .add_variable("x", 1.0)
        .add_variable("y", 1.0)
        .add_reaction("v1", rate, args=["x"], stoichiometry={"y": Derived(fn=half, args=[])})
        .add_reaction("v2", rate, args=["x"], stoichiometry={"y": Derived(fn=minus_three_halves, args=[]), "x": Derived(fn=scaled, args=["k"])})
        .add_reaction("v3", rate, args=["y"], stoichiometry={"y": Derived(fn=scaled, args=["k"])})
    )


def main() -> int:
    m1 = build()
    with tempfile.TemporaryDirectory() as tmp:
        file = write(m1, Path(tmp) / "c08_shared_reference.xml")
        text = Path(file).read_text()
        m2 = read(file)
    ids = [line.split('id="')[1].split('"')[0] for line in text.splitlines() if "<speciesReference id=" in line]
    print("species reference ids:", ids)
    bad = len(set(ids)) != len(ids)
    for state in ({"x": 1.0, "y": 1.0}, {"x": 3.0, "y": 0.5}):
        r1, r2 = m1.get_right_hand_side(state), m2.get_right_hand_side(state)
        for name in ("x", "y"):
            ok = np.isclose(r1[name], r2[name], rtol=1e-9, atol=1e-12)
            print(f"state={state} d{name}/dt: original={float(r1[name])} roundtrip={float(r2[name])} {'ok' if ok else 'MISMATCH'}")
            bad |= not ok
    # the first reference of a species keeps its plain name (tests/sbml/test_roundtrip.py relies on `xref`)
    if ids and ids[0] != "yref":
        print("first reference of y is not named yref:", ids[0])
        bad = True
    return 1 if bad else 0


if __name__ == "__main__":
    sys.exit(main())
