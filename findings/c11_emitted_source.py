"""C11: three defects in the TEXT generate_mxlpy_code emits around the function definitions.

(a) plain numbers (initial values, parameter values, numeric stoichiometric coefficients) are printed
    by SymPy with 15 significant digits: 0.1 + 0.2 becomes 0.3, 1/3 becomes 0.333333333333333 -- the
    rebuilt model has DIFFERENT initial values / parameter values / coefficients;
(b) a function whose translation uses the math module (a // b -> math.floor(a/b), math.pi) is emitted
    into a file without `import math`: generation succeeds, create_model() succeeds, the first query of
    the rebuilt model raises NameError;
(c) a variable / parameter with a unit is emitted as add_variable(name, value=..., unit=<bare unit name>):
    `value` is not a parameter of add_variable (TypeError) and the unit names are not imported (NameError).

Exit 1 while any of them is present, 0 when repaired (fixes/C11-emitted-numbers-imports-units.diff).
Run: PYTHONPATH=<repo>/src PYTHONDONTWRITEBYTECODE=1 python findings/c11_emitted_source.py
"""

from __future__ import annotations

import logging
import math
import sys

logging.disable(logging.CRITICAL)

from mxlpy import Model, units  # noqa: E402
from mxlpy.meta import generate_mxlpy_code  # noqa: E402


def ident(a: float) -> float:
    return a


def floordiv(a: float, b: float) -> float:
    return a // b


def turns(a: float) -> float:
    return a * math.pi


def rebuild(m: Model) -> Model:
    src = generate_mxlpy_code(m)
    ns: dict = {}
    exec(compile(src, "<generated>", "exec"), ns)  # noqa: S102
    return ns["create_model"]()


def check_numbers() -> list[str]:
    m = (
        Model()
        .add_variable("x", 0.1 + 0.2)
        .add_parameter("p", 1 / 3)
        .add_parameter("q", 123456789.123456789)
        .add_reaction("v", fn=ident, args=["p"], stoichiometry={"x": 2 / 3})
    )
    m2 = rebuild(m)
    bad = []
    if m.get_initial_conditions() != m2.get_initial_conditions():
        bad.append(f"(a) initial values: {m.get_initial_conditions()} rebuilt as {m2.get_initial_conditions()}")
    if m.get_parameter_values() != m2.get_parameter_values():
        bad.append(f"(a) parameter values: {m.get_parameter_values()} rebuilt as {m2.get_parameter_values()}")
    s1 = m.get_raw_reactions()["v"].stoichiometry["x"]
    s2 = m2.get_raw_reactions()["v"].stoichiometry["x"]
    if s1 != s2:
        bad.append(f"(a) stoichiometric coefficient: {s1!r} rebuilt as {s2!r}")
    return bad


def check_math() -> list[str]:
    bad = []
    for fn, args in ((floordiv, ["x", "p"]), (turns, ["x"])):
        m = Model().add_variable("x", 7.0).add_parameter("p", 2.0).add_derived("d", fn=fn, args=args)
        try:
            m2 = rebuild(m)
            a, b = m.get_args()["d"], m2.get_args()["d"]
            if a != b:
                bad.append(f"(b) {fn.__name__}: derived value {a} rebuilt as {b}")
        except Exception as e:  # noqa: BLE001
            bad.append(f"(b) {fn.__name__}: generation succeeded, the rebuilt model fails: {type(e).__name__}: {e}")
    return bad


def check_units() -> list[str]:
    bad = []
    for what, unit in (("mol/second", units.mol_s), ("meter**3", units.cbm), ("item", units.item)):
        m = Model().add_variable("x", 1.0, unit=unit).add_parameter("p", 2.0, unit=unit)
        try:
            src = generate_mxlpy_code(m)
        except Exception:  # noqa: BLE001  -- refusing to generate is what the property allows
            continue
        try:
            ns: dict = {}
            exec(compile(src, "<generated>", "exec"), ns)  # noqa: S102
            m2 = ns["create_model"]()
            if m2.get_initial_conditions() != m.get_initial_conditions() or m2.get_parameter_values() != m.get_parameter_values():
                bad.append(f"(c) unit {what}: values differ")
            if m2.get_raw_variables()["x"].unit != unit or m2.get_raw_parameters()["p"].unit != unit:
                bad.append(f"(c) unit {what}: rebuilt with unit {m2.get_raw_variables()['x'].unit!r}")
        except Exception as e:  # noqa: BLE001
            bad.append(f"(c) unit {what}: generation succeeded, the generated source fails: {type(e).__name__}: {e}")
    return bad


def main() -> int:
    bad = check_numbers() + check_math() + check_units()
    for b in bad:
        print("DEFECT", b)
    if not bad:
        print("OK: numbers, math imports and units survive the round trip")
    return 1 if bad else 0


if __name__ == "__main__":
    sys.exit(main())
