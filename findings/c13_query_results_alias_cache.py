"""C13: Model.get_initial_conditions() and Model.get_parameter_values() hand out the dictionaries held in the model
cache (ModelCache.initial_conditions / base_parameter_values) instead of copies.  Whoever changes the returned dict in
place -- a user, or a Simulator built without y0 whose `y0` IS that dict -- rewrites what the model believes its
resolved initial state / parameter values are: later get_initial_conditions(), the default state of
get_args/get_fluxes/get_right_hand_side and the default start of every later Simulator are no longer the declared
values and initial assignments resolved at t=0, and values chained through the changed entry by an initial assignment
are not re-resolved (the "initial state" is not even self-consistent).

Exit 0 when the query results are the caller's own objects, non-zero on the defect."""
from mxlpy import InitialAssignment, Model, Simulator


def twice(a):
    return 2 * a


def ma(s, k):
    return k * s


def build():
    m = Model()
    m.add_parameters({"k": 0.5, "p": InitialAssignment(fn=twice, args=["y"])})
    m.add_variables({"x": 1.0, "y": InitialAssignment(fn=twice, args=["x"])})  # y(0) = 2, p = 4
    m.add_reaction("v", fn=ma, args=["x", "k"], stoichiometry={"x": -1, "y": 1})
    return m


fails = []

# 1. the dict returned by get_initial_conditions is the caller's
m = build()
ic = m.get_initial_conditions()
ic["x"] = 99.0
if m.get_initial_conditions() != {"x": 1.0, "y": 2.0}:
    fails.append(f"get_initial_conditions() after the caller changed the returned dict: {m.get_initial_conditions()}")
if float(m.get_args()["x"]) != 1.0 or float(m.get_args()["v"]) != 0.5:
    fails.append(f"default state of get_args() follows the caller's dict: x={float(m.get_args()['x'])}")
if Simulator(m, test_run=False).y0 != {"x": 1.0, "y": 2.0}:
    fails.append(f"a new Simulator starts from {Simulator(m, test_run=False).y0}")

# 2. the start state of a Simulator built without y0 is the simulator's own
m = build()
sim = Simulator(m, test_run=False)
sim.y0["x"] = 5.0
if m.get_initial_conditions() != {"x": 1.0, "y": 2.0}:
    fails.append(f"changing sim.y0 changed the model's initial conditions: {m.get_initial_conditions()}")

# 3. the dict returned by get_parameter_values is the caller's
m = build()
pv = m.get_parameter_values()
pv["k"] = 7.0
pv.pop("k")
if m.get_parameter_values() != {"k": 0.5}:
    fails.append(f"get_parameter_values() after the caller changed the returned dict: {m.get_parameter_values()}")

for f in fails:
    print("FAIL:", f)
print("RESULT:", "FAIL" if fails else "OK")
raise SystemExit(1 if fails else 0)
