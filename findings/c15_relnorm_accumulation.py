"""C15 (known finding c15-relnorm-accumulation): with rel_norm=True the steady-state loop compares the RELATIVE
change per step with the tolerance.  For unbounded linear accumulation that ratio decays like 1/n, so with a
tolerance above ~1/1000 a state that never stops growing is presented as steady."""
from mxlpy import Model, Simulator
def const(k): return k
m = Model().add_variable("x", 1.0).add_parameter("k", 1.0).add_reaction("v", fn=const, args=["k"], stoichiometry={"x": 1})
res = Simulator(m).simulate_to_steady_state(tolerance=1e-2, rel_norm=True).get_result()
val = res.value
print("result:", type(val).__name__, getattr(val, "raw_variables", None))
raise SystemExit(0 if type(val).__name__ == "NoSteadyState" else "FAIL: dx/dt = 1 has no steady state but one was reported (relative norm, tolerance 1e-2)")
