"""C09 defect: sequential scans share ONE mutable model between all rows, but every result keeps a
reference to it and evaluates .fluxes/.variables lazily (Simulation._compute_args re-applies only
the plain parameter values).  A parameter defined by an InitialAssignment on a scanned initial
value is therefore read from the LAST row by every result: fluxes 3,3,3 (sequential) vs 1,2,3
(parallel / independent runs).  Exits 1 while the defect is present, 0 when repaired
(fixes/C09-sequential-shared-model.diff).

run:  PYTHONPATH=<repo>/src:/verif /venv/bin/python findings/c09_sequential_stale.py"""
import contextlib
import io
import sys

import numpy as np
import pandas as pd

from harness import c09_fns as F
from mxlpy import InitialAssignment, Model, scan


def model():
    m = Model()
    m.add_variable("x", 1.0)
    m.add_parameter("k", 1.0)
    m.add_parameter("p", InitialAssignment(fn=F.g_id, args=["x"]))  # p := initial value of x
    m.add_reaction("v", fn=F.g_mul, args=["p", "k"], stoichiometry={"x": -1.0})  # flux = p * k
    return m


tab = pd.DataFrame({"x": [1.0, 2.0, 3.0]})
out = {}
for par in (False, True):
    with contextlib.redirect_stderr(io.StringIO()):
        r = scan.time_course(model(), to_scan=tab, time_points=np.array([0.0, 0.5]), parallel=par)
        out[par] = [float(r.fluxes.loc[(i, 0.0), "v"]) for i in range(3)]
print("sequential fluxes at t=0:", out[False], " parallel:", out[True], " expected: [1.0, 2.0, 3.0]")
sys.exit(0 if out[False] == out[True] == [1.0, 2.0, 3.0] else 1)
