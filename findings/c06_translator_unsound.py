"""C06 demonstration: fn_to_sympy returns expressions that differ from the function.

Exits non-zero while any of the repaired defects is present, zero when all are repaired.
Run:  PYTHONPATH=/repo/src:/verif /venv/bin/python /verif/findings/c06_translator_unsound.py
(the functions live in harness/c06_corpus.py because fn_to_sympy needs a real source file)."""
import logging
import sys
from fractions import Fraction

import sympy

logging.disable(logging.CRITICAL)
from mxlpy.meta.source_tools import fn_to_sympy  # noqa: E402

from harness import c06_corpus as C  # noqa: E402
from harness.c06_symeval import python_value, value_at  # noqa: E402

PTS = [Fraction(x) for x in (-2, -1, 0, 1, 2, 3)] + [Fraction(1, 2), Fraction(3, 2)]
bad = 0
for name, margs in C.WITNESSES:
    fn = getattr(C, name)
    params = list(fn.__code__.co_varnames[: fn.__code__.co_argcount])
    try:
        e = fn_to_sympy(fn, origin="demo", model_args=None if margs is None else [sympy.Symbol(m) for m in margs])
    except Exception as ex:  # noqa: BLE001 -- a visible failure is fine
        e = None
    if e is None:
        continue
    names = params if margs is None else margs
    syms = sorted(set(names))
    for v in PTS:
        for w in PTS[:4]:
            pt = {s: (v if i == 0 else w) for i, s in enumerate(syms)}
            pv = python_value(fn, [pt[n] for n in names])
            if pv is not None and value_at(e, pt) != pv:
                print(f"WRONG  {name}(model_args={margs}) -> {e};  at {pt}: function {pv}, expression {value_at(e, pt)}")
                bad += 1
                break
        else:
            continue
        break
print(f"{bad} wrong translation(s)")
sys.exit(1 if bad else 0)
