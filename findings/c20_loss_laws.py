"""C20 findings c20-mean-signed / c20-cosine-rewards-size: two shipped losses are not smallest at
prediction == data and reward a prediction for being large.  Exits 1 while either defect is present.

  PYTHONPATH=/repo/src /venv/bin/python /verif/findings/c20_loss_laws.py
"""
import sys

import pandas as pd

from mxlpy.fit import losses

d = pd.Series([1.0])
p = pd.Series([2.0])
bad = 0
for name in ("mean", "cosine_similarity"):
    f = getattr(losses, name)
    # the residual functions call loss_fn(data, prediction)
    at_data, at_p, at_2p = float(f(d, d)), float(f(d, p)), float(f(d, 2 * p))
    print(f"{name}: exact prediction scores {at_data}, prediction 2 scores {at_p}, prediction 4 scores {at_2p}")
    if at_p < at_data or at_2p < at_p:
        print(f"  -> {name} prefers a wrong / larger prediction to the exact one")
        bad = 1
sys.exit(bad)
