"""C15: the steady-state loop kept a reference to the integrator's in-place output buffer, so the
change between two steps was always 0 and every model 'converged' at the second step."""
from mxlpy import Model, Simulator
def const(k): return k
m = Model().add_variable("x", 1.0).add_parameter("k", 1.0).add_reaction("v", fn=const, args=["k"], stoichiometry={"x": 1})
res = Simulator(m).simulate_to_steady_state(tolerance=1e-6).get_result()
val = res.value
print("result:", type(val).__name__, getattr(val, "raw_variables", None))
raise SystemExit(0 if type(val).__name__ == "NoSteadyState" else "FAIL: dx/dt = 1 has no steady state but one was reported")
