"""C15: steady-state loop aliases scipy's in-place buffer -> 'converges' at step 2 for any trajectory."""
from mxlpy import Model, Simulator, fns
def const(k): return k
m = Model().add_variable("x", 1.0).add_parameter("k", 1.0).add_reaction("v", fn=const, args=["k"], stoichiometry={"x": 1})
res = Simulator(m).simulate_to_steady_state(tolerance=1e-6).get_result()
print("result:", None if res is None else res.variables)
assert res is None, "dx/dt = 1 has no steady state but one was reported"
