"""C04 defect (repaired by fixes/C04-override-twice.diff, /repo commit c79b1e9): two successive
update_variable(s) calls without a simulation in between -- the second restarted from the last
SIMULATED row and silently discarded the first override.

  dx/dt = 0, dy/dt = 0;  simulate(2); update_variable(x, 5); update_variable(y, 0); simulate(3)
  must continue from (x, y) = (5, 0); the defect continues from (1, 0).

Exit 1 while the defect is present, 0 once repaired.
Run: PYTHONPATH=<repo>/src /venv/bin/python findings/c04_override_twice.py
"""
import sys

from mxlpy import Model, Simulator
from mxlpy.integrators import Scipy


def zero(k):
    return 0.0 * k


m = Model().add_variables({"x": 1.0, "y": 1.0}).add_parameters({"k": 1.0})
m.add_reaction("v", fn=zero, args=["k"], stoichiometry={"x": 1, "y": 1})
s = Simulator(m, integrator=Scipy).simulate(2, steps=1)
s.update_variable("x", 5.0).update_variable("y", 0.0).simulate(3, steps=1)
last = s.get_result().unwrap_or_err().variables.iloc[-1].to_dict()
print("state at t=3:", last, " expected {'x': 5.0, 'y': 0.0}")
sys.exit(0 if last == {"x": 5.0, "y": 0.0} else 1)
