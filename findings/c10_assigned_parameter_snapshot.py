"""C10 -- the per-segment parameter snapshot of a result forgets assignment-defined parameters.

dx/dt = v = x * q.  (A) q is the number 3 during segment 0 and the initial assignment q = 2*p (p = 1)
during segment 1.  (B) the other way round: q = 2*p during segment 0, the number 5 during segment 1.
Property C10: the fluxes / parameters / derivatives reported for a time point are the model's values
under the parameter values IN FORCE DURING THAT POINT'S SEGMENT.

Simulator stores model.get_parameter_values() per segment, which lists plain values only; the views
re-apply just those, so q keeps whatever definition the model has at read time.

Exit status 1 on the defect, 0 when every segment is reported under its own definition of q.

    PYTHONPATH=<repo>/src python findings/c10_assigned_parameter_snapshot.py
"""
from __future__ import annotations

import sys

import numpy as np

from mxlpy import InitialAssignment, Model, Simulator
from mxlpy.integrators.abstract import TimeCourse
from mxlpy.types import Result


def twice(a: float) -> float:
    return 2 * a


def mul(a: float, b: float) -> float:
    return a * b


class UnitStep:
    """explicit unit-step recurrence on small integers (exact in binary64)"""

    def __init__(self, rhs, y0, jacobian=None):  # noqa: ANN001, ARG002
        self.rhs, self.y0 = rhs, tuple(y0)
        self.reset()

    def reset(self) -> None:
        self.t, self.y = 0.0, np.array(self.y0, dtype=float)

    def integrate(self, *, t_end, steps=None):  # noqa: ANN001, ARG002
        ts, ys = [self.t], [self.y.copy()]
        while self.t < t_end:
            self.y = ((self.y + np.array(self.rhs(self.t, self.y), dtype=float) + 9.0) % 19.0) - 9.0
            self.t += 1.0
            ts.append(self.t)
            ys.append(self.y.copy())
        return Result(TimeCourse(time=np.array(ts), values=np.array(ys)))

    def integrate_time_course(self, *, time_points):  # noqa: ANN001
        return self.integrate(t_end=float(time_points[-1]))

    def integrate_to_steady_state(self, *, tolerance, rel_norm):  # noqa: ANN001, ARG002
        return self.integrate(t_end=self.t + 1.0)


def run(q0, q1):
    m = Model().add_variable("x", 1.0).add_parameters({"p": 1.0, "q": q0})
    m.add_reaction("v", fn=mul, args=["x", "q"], stoichiometry={"x": 1})
    s = Simulator(m, integrator=UnitStep)
    s.simulate(1)
    s.update_parameter("q", q1)
    s.simulate(2)
    return s.get_result().unwrap_or_err()


bad: list[str] = []
assign = InitialAssignment(fn=twice, args=["p"])

res = run(3.0, assign)          # (A) rows t=0,1 under q=3; row t=2 under q = 2*p = 2
args = res.get_args(include_parameters=True)
print("(A) q: 3 -> 2*p\n", args)
x2 = float(args.loc[2.0, "x"])
if float(args.loc[2.0, "q"]) != 2.0 or float(args.loc[2.0, "v"]) != 2.0 * x2:
    bad.append(f"(A) t=2 ran with q = 2*p = 2, flux {2.0 * x2}; reported q = {float(args.loc[2.0, 'q'])}, v = {float(args.loc[2.0, 'v'])}")
if float(res.get_right_hand_side().loc[2.0, "x"]) != 2.0 * x2:
    bad.append(f"(A) derivative at t=2 reported {float(res.get_right_hand_side().loc[2.0, 'x'])}, under the segment's q it is {2.0 * x2}")

res = run(assign, 5.0)          # (B) rows t=0,1 under q = 2*p = 2; row t=2 under q = 5
args = res.get_args(include_parameters=True)
print("(B) q: 2*p -> 5\n", args)
if float(args.loc[0.0, "q"]) != 2.0 or float(args.loc[0.0, "v"]) != 2.0:
    bad.append(f"(B) t=0 ran with q = 2*p = 2, flux 2; reported q = {float(args.loc[0.0, 'q'])}, v = {float(args.loc[0.0, 'v'])}")

# what already works: the assignment stays, a parameter it depends on changes between segments and afterwards
m = Model().add_variable("x", 1.0).add_parameters({"p": 1.0, "q": assign})
m.add_reaction("v", fn=mul, args=["x", "q"], stoichiometry={"x": 1})
s = Simulator(m, integrator=UnitStep)
s.simulate(1)
s.update_parameter("p", 2.0)
s.simulate(2)
res = s.get_result().unwrap_or_err()
m.update_parameter("p", 7.0)
args = res.get_args(include_parameters=True)
if [float(v) for v in args["q"]] != [2.0, 2.0, 4.0]:
    bad.append(f"(C) q = 2*p with p = 1, 1, 2: reported {[float(v) for v in args['q']]}")

for b in bad:
    print("DEFECT:", b)
print("property", "VIOLATED" if bad else "holds on these inputs")
sys.exit(1 if bad else 0)
