"""C04 defect (repaired by fixes/C04-timeshift.diff, /repo commit d249b13): after update_variable(s)
the requested end was first shifted into integrator time and then compared with the ABSOLUTE
prior end, so a legal continuation was refused and legal time points were silently dropped.

  simulate(10); update_variable(x, 2); simulate(15)                         -> ValueError (15 > 10!)
  simulate(10); update_variable(x, 2); simulate_time_course([12,14,21,23])  -> 12 and 14 missing

Exit 1 while the defect is present, 0 once repaired.
Run: PYTHONPATH=<repo>/src /venv/bin/python findings/c04_timeshift.py
"""
import sys

from mxlpy import Model, Simulator
from mxlpy.integrators import Scipy


def v(x, k):
    return k * x


def new():
    m = Model().add_variables({"x": 1.0}).add_parameters({"k": 0.25})
    m.add_reaction("v", fn=v, args=["x", "k"], stoichiometry={"x": -1})
    return Simulator(m, integrator=Scipy)


bad = 0
s = new().simulate(10, steps=2).update_variable("x", 2.0)
try:
    s.simulate(15, steps=2)
    idx = list(s.get_result().unwrap_or_err().variables.index)
    print("simulate(15) after the override accepted, index", idx)
    bad |= idx != [0.0, 5.0, 10.0, 12.5, 15.0]
except ValueError as e:
    print("DEFECT: simulate(15) after simulate(10) + update_variable refused:", e)
    bad = 1
s = new().simulate(10, steps=2).update_variable("x", 2.0).simulate_time_course([12, 14, 21, 23])
idx = list(s.get_result().unwrap_or_err().variables.index)
print("time course index", idx)
if idx != [0.0, 5.0, 10.0, 12.0, 14.0, 21.0, 23.0]:
    print("DEFECT: requested points later than t=10 are missing")
    bad = 1
sys.exit(bad)
