"""C12 defect: to_symbolic_model substitutes derived values in DECLARATION order, so a derived
value declared before one it depends on raises KeyError -- although the numeric model accepts
every declaration order (and Simulator(use_jacobian=True) silently loses its Jacobian).

Run:  PYTHONPATH=<repo>/src python findings/c12_derived_order.py
exit 1 = defect present, exit 0 = repaired (fixes/C12-derived-order.diff)."""

import logging
import sys

logging.disable(logging.CRITICAL)

from mxlpy import Model, fns  # noqa: E402
from mxlpy.symbolic import to_symbolic_model  # noqa: E402


def model(in_order: bool) -> Model:
    m = Model()
    m.add_variables({"x1": 1.0, "x2": 0.0})
    m.add_parameters({"k1": 1.0, "k2": 2.0})
    ders = [("d1", fns.mul, ["k1", "x1"]), ("d2", fns.add, ["d1", "k2"])]
    for name, fn, args in ders if in_order else reversed(ders):
        m.add_derived(name, fn=fn, args=args)
    m.add_reaction("r1", fn=fns.mass_action_1s, args=["x1", "d2"], stoichiometry={"x1": -1, "x2": 1})
    return m


print("numeric rhs, declared in order :", model(True).get_right_hand_side().to_dict())
print("numeric rhs, declared reversed :", model(False).get_right_hand_side().to_dict())
a = to_symbolic_model(model(True)).eqs
try:
    b = to_symbolic_model(model(False)).eqs
except Exception as e:  # noqa: BLE001
    print("symbolic conversion of the reversed declaration FAILS:", type(e).__name__, e)
    sys.exit(1)
ok = all((x - y).simplify() == 0 for x, y in zip(a, b))
print("both orders convert; equations agree:", ok)
sys.exit(0 if ok else 1)
