"""C08 finding stale-bytecode-on-reimport: a second round trip in one session returns the FIRST model.

`sbml.read` writes the generated module to ~/.cache/mxlpy/mb_<file stem>.py and imports it with the ordinary source
loader.  With byte-code caching on (the interpreter's default) the loader trusts a cached .pyc when the source's mtime
(whole seconds) and size are unchanged -- exactly what happens when a model is edited (a parameter value with the same
number of digits), exported over the same file (or under the same name elsewhere) and read again within the second.

The demo switches byte-code caching on for the generated modules only (cache directory redirected to a temporary
directory, nothing is written next to the library).  Exit 1 while a read returns a stale model, 0 when every read returns
the model that is in the file (fixes/C08-reimport-stale-bytecode.diff).
"""

from __future__ import annotations

import sys
import tempfile
from pathlib import Path

from mxlpy import Model, fns
from mxlpy.sbml import read, write


def build(kf: float) -> Model:
    return (
        Model()
        .add_parameter("kf", kf)
        .add_variable("s", 2.0)
        .add_variable("p", 0.5)
        .add_reaction("v", fns.mass_action_1s, args=["s", "kf"], stoichiometry={"s": -1, "p": 1})
    )


def main() -> int:
    bad = 0
    with tempfile.TemporaryDirectory() as tmp:
        # the interpreter's default: byte code of imported modules is cached
        sys.pycache_prefix = str(Path(tmp) / "pyc")
        sys.dont_write_bytecode = False
        file = Path(tmp) / "c08_stale_bytecode.xml"
        for kf in (0.5, 4.0, 0.5, 2.5, 1.5, 3.0):
            m1 = build(kf)
            m2 = read(write(m1, file))
            v1 = float(m1.get_fluxes({"s": 2.0, "p": 0.5})["v"])
            v2 = float(m2.get_fluxes({"s": 2.0, "p": 0.5})["v"])
            got = float(m2.get_parameter_values()["kf"])
            ok = got == kf and v1 == v2
            print(f"exported kf={kf}: read back kf={got}, flux original={v1} roundtrip={v2} {'ok' if ok else 'STALE'}")
            bad += not ok
    cache = Path.home() / ".cache" / "mxlpy" / "mb_c08_stale_bytecode.py"
    cache.unlink(missing_ok=True)
    print("stale reads:", bad)
    return 1 if bad else 0


if __name__ == "__main__":
    sys.exit(main())
