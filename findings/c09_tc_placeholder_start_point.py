"""C09 defect tc-placeholder-misses-t0: the NaN placeholder of a failing row of a time-course /
protocol-time-course scan is built from the REQUESTED time points, while a successful row has the time
axis the Simulator reports (t=0 is inserted when the first requested point is later; a protocol run
also reports the ends of the protocol steps and nothing beyond the protocol).  The failing row's
block is therefore shorter / differently indexed than the blocks of rows that worked.

Exits 1 while the defect is present, 0 when repaired (fixes/C09-tc-placeholder-start-point.diff).

run:  PYTHONPATH=<repo>/src:/verif /venv/bin/python findings/c09_tc_placeholder_start_point.py"""
import contextlib
import io
import sys

import numpy as np
import pandas as pd

from harness import c09_fns as F
from harness.c09_integ import ExactEuler
from mxlpy import Model, make_protocol, mc, scan


def sq_model():
    """x' = x*x: stays at 0 from 0; from 100 it leaves the integrator's range (IntegrationFailure)."""
    m = Model()
    m.add_variable("x", 0.0)
    m.add_parameter("q", 1.0)
    m.add_reaction("v", fn=F.g_sq, args=["x"], stoichiometry={"x": 1.0})
    return m


bad = 0
tab = pd.DataFrame({"x": [0.0, 100.0]})
proto = make_protocol([(2.0, {"q": 1.0}), (2.0, {"q": 2.0})])
with contextlib.redirect_stderr(io.StringIO()):
    for name, run in (
        ("scan.time_course [1,2]", lambda: scan.time_course(sq_model(), to_scan=tab, time_points=np.array([1.0, 2.0]),
                                                             parallel=False, integrator=ExactEuler)),
        ("mc.time_course [1,2]", lambda: mc.time_course(sq_model(), mc_to_scan=tab, time_points=np.array([1.0, 2.0]),
                                                         max_workers=2, integrator=ExactEuler)),
        ("scan.protocol_time_course [1,3,5]", lambda: scan.protocol_time_course(
            sq_model(), to_scan=tab, protocol=proto, time_points=np.array([1.0, 3.0, 5.0]), parallel=False, integrator=ExactEuler)),
        ("mc.protocol_time_course [0,1,4]", lambda: mc.protocol_time_course(
            sq_model(), mc_to_scan=tab, protocol=proto, time_points=np.array([0.0, 1.0, 4.0]), max_workers=2, integrator=ExactEuler)),
    ):
        v = run().variables
        ok_axis, ph_axis = v.loc[0].index.tolist(), v.loc[1].index.tolist()
        assert not np.isnan(v.loc[0].to_numpy()).any() and np.isnan(v.loc[1].to_numpy()).all()
        verdict = "same axis" if ok_axis == ph_axis else "DIFFERENT"
        print(f"{name}: successful row t={ok_axis}, failing row's placeholder t={ph_axis}  -> {verdict}")
        bad += ok_axis != ph_axis
sys.exit(1 if bad else 0)
