"""C07 defect: generate_model_code_*(model, free_parameters=[...]) pops the free parameters from
the dict that Model.get_parameter_values() hands out from the model cache: afterwards the model
no longer lists them, and the same request a second time raises KeyError.

Run:  PYTHONPATH=<repo>/src python findings/c07_cached_parameter_dict.py
exit 1 = defect present, exit 0 = repaired (fixes/C07-copy-parameter-dict.diff)."""

import logging
import sys

logging.disable(logging.CRITICAL)

from mxlpy import Model, fns  # noqa: E402
from mxlpy.meta import generate_model_code_ts  # noqa: E402

m = Model()
m.add_variables({"x1": 1.0})
m.add_parameters({"k1": 3.0, "k2": 1.0})
m.add_reaction("v1", fn=fns.mass_action_1s, args=["x1", "k1"], stoichiometry={"x1": -1.0})
before = dict(m.get_parameter_values())
first = generate_model_code_ts(m, free_parameters=["k1"])
after = dict(m.get_parameter_values())
print("parameters before:", before, "after:", after)
bad = before != after
try:
    second = generate_model_code_ts(m, free_parameters=["k1"])
    bad = bad or second != first
except KeyError as e:
    print("DEFECT: the same request a second time raises KeyError", e)
    bad = True
sys.exit(1 if bad else 0)
