"""C05 known finding: homodimer substrates (2A -> B) share one argument replacement.

_create_isotopomer_reactions renames rate arguments through ONE dict keyed by the base name, so both
occurrences of A in args=[A, A, k] become the LAST isotopomer of the pattern: v__01 gets (A__1, A__1).
At A__0=3, A__1=1, k=1 the summed derivative of A's isotopomers is -40; the base model at A=4 gives -32.
Exit 1 while the behaviour is present.

Run: PYTHONPATH=<repo>/src /venv/bin/python findings/c05_homodimer.py
"""
import sys

from mxlpy import LabelMapper, Model


def ma2(a, b, k):
    return k * a * b


m = Model().add_variables({"A": 4.0, "B": 0.0}).add_parameters({"k": 1.0})
m.add_reaction("v", fn=ma2, args=["A", "A", "k"], stoichiometry={"A": -2, "B": 1})
lm = LabelMapper(m, label_variables={"A": 1, "B": 2}, label_maps={"v": [0, 1]}).build_model()
print({k: r.args for k, r in lm.get_raw_reactions().items()})
state = {"A__0": 3.0, "A__1": 1.0, "B__00": 0.0, "B__01": 0.0, "B__10": 0.0, "B__11": 0.0}
rhs = lm.get_right_hand_side(state, time=0.0)
got = rhs["A__0"] + rhs["A__1"]
want = m.get_right_hand_side({"A": 4.0, "B": 0.0}, time=0.0)["A"]
print("summed isotopomer derivative of A:", got, " base derivative at the total:", want)
sys.exit(0 if got == want else 1)
