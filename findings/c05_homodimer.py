"""C05 findings c05-homodimer and c05-labelled-modifier: renaming of the rate arguments of a mapped reaction.

_create_isotopomer_reactions renames rate arguments through ONE dict keyed by the base name:

(1) homodimer: both occurrences of A in args=[A, A, k] of 2A -> B become the LAST isotopomer of the pattern
    (v__01 gets (A__1, A__1)).  At A__0=3, A__1=1, k=1 the summed derivative of A's isotopomers is -40; the
    base model at A=4 gives -32.
(2) labelled modifier: a labelled compound M that enters the rate of A -> B without taking part in the reaction
    keeps its base name 'M', which the labelled model does not define (only M__0, M__1, M__total): the
    right-hand side cannot be evaluated (MissingDependenciesError).

Exit 1 while either behaviour is present; exit 0 with fixes/C05-homodimer.diff applied.

Run: PYTHONPATH=<repo>/src /venv/bin/python findings/c05_homodimer.py
"""
import sys

from mxlpy import LabelMapper, Model


def ma2(a, b, k):
    return k * a * b


bad = 0

# (1) homodimer
m = Model().add_variables({"A": 4.0, "B": 0.0}).add_parameters({"k": 1.0})
m.add_reaction("v", fn=ma2, args=["A", "A", "k"], stoichiometry={"A": -2, "B": 1})
lm = LabelMapper(m, label_variables={"A": 1, "B": 2}, label_maps={"v": [0, 1]}).build_model()
print({k: r.args for k, r in lm.get_raw_reactions().items()})
state = {"A__0": 3.0, "A__1": 1.0, "B__00": 0.0, "B__01": 0.0, "B__10": 0.0, "B__11": 0.0}
rhs = lm.get_right_hand_side(state, time=0.0)
got = rhs["A__0"] + rhs["A__1"]
want = m.get_right_hand_side({"A": 4.0, "B": 0.0}, time=0.0)["A"]
print("homodimer: summed isotopomer derivative of A:", got, " base derivative at the total:", want)
bad += got != want

# (2) labelled modifier
m = Model().add_variables({"A": 2.0, "B": 0.0, "M": 3.0}).add_parameters({"k": 1.0})
m.add_reaction("v", fn=ma2, args=["A", "M", "k"], stoichiometry={"A": -1, "B": 1})
lm = LabelMapper(m, label_variables={"A": 1, "B": 1, "M": 1}, label_maps={"v": [0]}).build_model()
print({k: r.args for k, r in lm.get_raw_reactions().items()})
state = {"A__0": 1.0, "A__1": 1.0, "B__0": 0.0, "B__1": 0.0, "M__0": 2.0, "M__1": 1.0}
want = m.get_right_hand_side({"A": 2.0, "B": 0.0, "M": 3.0}, time=0.0)["A"]
try:
    rhs = lm.get_right_hand_side(state, time=0.0)
    got = rhs["A__0"] + rhs["A__1"]
    print("labelled modifier: summed isotopomer derivative of A:", got, " base derivative at the totals:", want)
    bad += got != want
except Exception as e:  # noqa: BLE001
    print("labelled modifier: right-hand side of the labelled model cannot be evaluated:", type(e).__name__, "(base derivative at the totals:", want, ")")
    bad += 1
sys.exit(1 if bad else 0)
