"""C06 finding: a lambda written on a `def` line is translated as that DEF.

`get_fn_ast` parses `inspect.getsource(fn)` and only tests that the first statement is a function definition.  For a
lambda inspect.getsource returns the whole source STATEMENT the lambda is written in.  Normally that is an assignment
or an expression and the lambda is refused ("Not a function").  When the lambda is a default value (or a decorator
argument) of a def, the statement IS a def -- and fn_to_sympy returns the translation of that def's body for the lambda.

Exits 1 while the expression returned for the lambda differs from the lambda, 0 when the translation is refused or right.
Run:  PYTHONPATH=<repo>/src python findings/c06_lambda_def_line.py
"""

from __future__ import annotations

import logging
import sys

import sympy

from mxlpy.meta.source_tools import fn_to_sympy

logging.disable(logging.CRITICAL)


def tag(_fn):  # noqa: ANN001, ANN201
    return lambda f: f


def rate(s: float, k: float, alt=lambda s, k: s + k) -> float:  # noqa: ANN001, ARG001
    return k * s


keep = []


@tag(keep.append(lambda s, k: s - k) or None)
def rate2(s: float, k: float) -> float:
    return k * s


plain = lambda s, k: s + k  # noqa: E731 -- control: refused


def main() -> int:
    bad = 0
    s, k = sympy.symbols("s k")
    for label, lam, margs in (("default value", rate.__defaults__[0], None), ("decorator argument", keep[0], [s, k]), ("plain assignment", plain, [s, k])):
        expr = fn_to_sympy(lam, origin="finding", model_args=margs)
        if expr is None:
            print(f"{label:20s} refused")
            continue
        wrong = [(a, b) for a, b in ((1.0, 2.0), (3.0, 0.5)) if abs(float(expr.subs({s: a, k: b})) - lam(a, b)) > 1e-9]
        print(f"{label:20s} -> {expr}   " + (f"WRONG: the lambda has value {lam(*wrong[0])} at (s, k) = {wrong[0]}" if wrong else "ok"))
        bad += bool(wrong)
    return 1 if bad else 0


if __name__ == "__main__":
    sys.exit(main())
