"""C08 finding names-needing-escaping, the part that is repairable: identifiers inside the exported document.

A component whose name needs escaping is written under an escaped id (`x-1` -> `x__45__1`, `1k` -> `PAR_1k`), but the
math refers to the unescaped NAME, the symbol of an initial assignment is `IA_<name>` and a computed species reference is
`CPD_<name>ref` while its rule is `AR_<name>ref`.  For a name that gets a prefix the document has dangling identifiers and
the re-imported model cannot be evaluated (MissingDependenciesError).

Exit 1 while the written document refers to something it does not declare or the re-imported model differs BY POSITION
(k-th variable with k-th variable; the names themselves still change on import -- recorded, not repairable by a small
patch); 0 with fixes/C08-escaped-names-in-math.diff.
"""

from __future__ import annotations

import re
import sys
import tempfile
from pathlib import Path

import numpy as np

from mxlpy import Derived, InitialAssignment, Model
from mxlpy.sbml import read, write


def rate(x, k):
    return x * k


def plus_one(x):
    return x + 1


def triple(k):
    return k * 3


def negative(k):
    return -k


def build() -> Model:
    return (
        Model()
        .add_parameter("1k", 2.0)
        .add_parameter("2k", InitialAssignment(fn=triple, args=["1k"]))
        .add_variable("x-1", 1.5)
        .add_variable("9y", InitialAssignment(fn=triple, args=["1k"]))
        .add_derived("d.1", plus_one, args=["x-1"])
        .add_reaction("v 1", rate, args=["d.1", "1k"], stoichiometry={"x-1": -1, "9y": Derived(fn=negative, args=["2k"])})
    )


def main() -> int:
    m1 = build()
    bad = 0
    with tempfile.TemporaryDirectory() as tmp:
        file = write(m1, Path(tmp) / "c08_escaped_names.xml")
        text = Path(file).read_text()
        declared = set(re.findall(r'<(?:species|parameter|reaction|compartment) id="([^"]+)"', text))
        declared |= set(re.findall(r'<assignmentRule [^>]*variable="([^"]+)"', text)) | {"time"}
        used = {x.strip() for x in re.findall(r"<ci>([^<]*)</ci>", text)}
        symbols = set(re.findall(r'<initialAssignment [^>]*symbol="([^"]+)"', text))
        srefs = set(re.findall(r'<speciesReference id="([^"]+)"', text))
        rules = set(re.findall(r'<assignmentRule [^>]*variable="([^"]+)"', text))
        for what, missing in (("math", used - declared), ("initial assignment symbols", symbols - declared), ("species references without rule", srefs - rules)):
            print(f"{what}: {'ok' if not missing else 'NOT DECLARED ' + str(sorted(missing))}")
            bad += bool(missing)
        try:
            m2 = read(file)
            v1, v2 = m1.get_variable_names(), m2.get_variable_names()
            for state in (None, {"x-1": 3.0, "9y": 0.25}):
                s1 = m1.get_initial_conditions() if state is None else state
                s2 = m2.get_initial_conditions() if state is None else dict(zip(v2, (state[a] for a in v1)))
                r1, r2 = m1.get_right_hand_side(s1), m2.get_right_hand_side(s2)
                for a, b in zip(v1, v2):
                    ok = np.isclose(s1[a], s2[b]) and np.isclose(r1[a], r2[b])
                    print(f"{a!r} -> {b!r}: value {float(s1[a])} / {float(s2[b])}, derivative {float(r1[a])} / {float(r2[b])} {'ok' if ok else 'MISMATCH'}")
                    bad += not ok
        except Exception as e:  # noqa: BLE001
            print(f"the re-imported model cannot be evaluated: {type(e).__name__}: {str(e)[:200]}")
            bad += 1
    print("problems:", bad)
    return 1 if bad else 0


if __name__ == "__main__":
    sys.exit(main())
