"""C06 finding: a helper that falls off its end (returns None) is translated as its last assigned variable.

`_handle_fn_body` ends with "if no return was found but we have assignments, return the last assigned variable".
A Python function that falls off its end returns None.  CPython lets that None flow through == / != in a caller
(`None == b` is False for every number b), so the caller has a value -- while the translated caller compares `b`
with the helper's last assigned variable and takes the other branch.

Exits 1 while fn_to_sympy returns an expression that differs from the function, 0 when the translation is refused
(or right).  Run:  PYTHONPATH=<repo>/src python findings/c06_fallthrough_callee.py
"""

from __future__ import annotations

import sys

from mxlpy.meta.source_tools import fn_to_sympy


def no_return(a: float, b: float):  # noqa: ANN201
    b = b  # noqa: PLW0127
    # no return: None


def compares_none(a: float, b: float) -> float:
    if no_return(1, 3.0) == b:
        return a * 2
    return b


def main() -> int:
    helper = fn_to_sympy(no_return, origin="finding")
    print("no_return      ->", helper, "   (Python: None)")
    expr = fn_to_sympy(compares_none, origin="finding")
    print("compares_none  ->", expr)
    if expr is None:
        print("translation refused: fine")
        return 0
    bad = 0
    for a, b in ((3.0, 3.0), (1.0, 3.0), (2.0, 1.0)):
        want = compares_none(a, b)
        got = float(expr.subs({"a": a, "b": b}))
        flag = "" if abs(got - want) < 1e-12 else "   <-- differs"
        bad += bool(flag)
        print(f"  (a, b) = ({a}, {b}): python {want}, expression {got}{flag}")
    return 1 if bad else 0


if __name__ == "__main__":
    sys.exit(main())
