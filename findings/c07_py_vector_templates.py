"""C07 defect: for a model with ONE variable the generated Python function starts with
`x1 = variables` (binds the whole vector: TypeError on first use), and a single derivative is
returned as a bare number although the signature promises Iterable[float].

Run:  PYTHONPATH=<repo>/src python findings/c07_py_vector_templates.py
exit 1 = defect present, exit 0 = repaired (fixes/C07-py-vector-templates.diff)."""

import logging
import sys

logging.disable(logging.CRITICAL)

from mxlpy import Model, fns  # noqa: E402
from mxlpy.meta import generate_model_code_py  # noqa: E402

m = Model()
m.add_variables({"x1": 2.0})
m.add_parameters({"k1": 3.0})
m.add_reaction("v1", fn=fns.mass_action_1s, args=["x1", "k1"], stoichiometry={"x1": -1.0})
expected = list(m(0.0, [2.0]))
text = generate_model_code_py(m)
print(text)
ns: dict = {}
exec(text, ns)  # noqa: S102
try:
    got = ns["model"](0.0, [2.0])
except TypeError as e:
    print("DEFECT: the generated function raises TypeError:", e)
    sys.exit(1)
print("model:", expected, "generated:", got)
try:
    ok = list(got) == expected
except TypeError:
    print("DEFECT: the generated function returns a bare number, not one value per variable")
    ok = False
sys.exit(0 if ok else 1)
