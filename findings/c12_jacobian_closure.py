"""C12 defect: Simulator(use_jacobian=True) hands the integrator a Jacobian function that passes
`model._parameters.values()` (Parameter containers, not numbers) to the lambdified Jacobian: every
method that actually calls the Jacobian (BDF, Radau, LSODA in stiff phases) dies with TypeError.

Run:  PYTHONPATH=<repo>/src python findings/c12_jacobian_closure.py
exit 1 = defect present, exit 0 = repaired (fixes/C12-jacobian-closure.diff)."""

import logging
import sys
from functools import partial

import numpy as np

logging.disable(logging.CRITICAL)

from mxlpy import Model, Simulator, fns  # noqa: E402
from mxlpy.integrators import Scipy  # noqa: E402


def model() -> Model:
    m = Model()
    m.add_variables({"x1": 1.0, "x2": 0.0})
    m.add_parameters({"k1": 1.0, "k2": 2.0})
    m.add_reaction("r1", fn=fns.mass_action_1s, args=["x1", "k1"], stoichiometry={"x1": -1, "x2": 1})
    m.add_reaction("r2", fn=fns.mass_action_1s, args=["x2", "k2"], stoichiometry={"x2": -1})
    return m


bad = 0
for method in ("BDF", "Radau"):
    plain = Simulator(model(), integrator=partial(Scipy, method=method)).simulate(1.0, steps=4).get_result().unwrap_or_err().variables.to_numpy()
    try:
        sim = Simulator(model(), integrator=partial(Scipy, method=method), use_jacobian=True)
        assert sim.integrator.jacobian is not None, "Jacobian dropped"
        j = np.asarray(sim.integrator.jacobian(0.0, [1.0, 0.0]), dtype=float)
        assert np.allclose(j, [[-1.0, 0.0], [1.0, -2.0]]), j
        withj = sim.simulate(1.0, steps=4).get_result().unwrap_or_err().variables.to_numpy()
        assert np.allclose(plain, withj, rtol=1e-5, atol=1e-7)
        print(method, "ok")
    except Exception as e:  # noqa: BLE001
        print(method, "FAILS:", type(e).__name__, e)
        bad = 1
sys.exit(bad)
