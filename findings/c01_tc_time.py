"""C01: a computed stoichiometric coefficient that depends on time works in __call__ / get_right_hand_side
but get_right_hand_side_time_course died with KeyError('time') (the args table has no time column)."""
import pandas as pd
from mxlpy import Model
from mxlpy.types import Derived
def one(k): return k
def coef(t): return 2.0 + t
m = Model().add_variable("x", 1.0).add_parameter("k", 3.0).add_reaction("v", fn=one, args=["k"], stoichiometry={"x": Derived(fn=coef, args=["time"])})
a = m.get_right_hand_side({"x": 1.0}, time=1.0)["x"]
b = m(1.0, [1.0])[0]
variables = pd.DataFrame({"x": [1.0]}, index=[1.0])
try:
    c = m.get_right_hand_side_time_course(m.get_args_time_course(variables)).loc[1.0, "x"]
except KeyError as e:
    raise SystemExit(f"FAIL: time-course form raised KeyError {e}; point forms give {a}, {b}")
print(a, b, c)
raise SystemExit(0 if a == b == c == 9.0 else "FAIL: entry points disagree")
