"""C07 defect: generate_model_code_* emits derived quantities (then reactions) in DECLARATION
order, so the generated function reads a name before assigning it whenever a derived value uses
one declared after it, or uses a rate -- although the numeric model accepts every declaration order.

Run:  PYTHONPATH=<repo>/src python findings/c07_dependency_order.py
exit 1 = defect present, exit 0 = repaired (fixes/C07-dependency-order.diff)."""

import logging
import sys

logging.disable(logging.CRITICAL)

from mxlpy import Model, fns  # noqa: E402
from mxlpy.meta import generate_model_code_py  # noqa: E402

m = Model()
m.add_variables({"x1": 1.0, "x2": 2.0})
m.add_parameters({"k1": 3.0})
m.add_derived("d2", fn=fns.mul, args=["d1", "k1"])  # declared BEFORE d1
m.add_derived("d1", fn=fns.add, args=["x1", "x2"])
m.add_reaction("v1", fn=fns.mass_action_1s, args=["x1", "d2"], stoichiometry={"x1": -1.0, "x2": 1.0})
expected = list(m(0.0, [1.0, 2.0]))
print("model:", expected)
text = generate_model_code_py(m)
print(text)
ns: dict = {}
exec(text, ns)  # noqa: S102
try:
    got = list(ns["model"](0.0, [1.0, 2.0]))
except NameError as e:  # UnboundLocalError
    print("DEFECT: the generated function raises", type(e).__name__, e)
    sys.exit(1)
print("generated:", got)
sys.exit(0 if got == expected else 1)
