"""C06 finding: `helper()` of a helper whose parameters all have defaults leaves the parameter as a free symbol.

fn_to_sympy substitutes the call arguments for the callee's parameter names with a STRICT zip, which is what refuses a
nested call that relies on default values (`saturation(s)` with `def saturation(s, n=2.0)`: ValueError -> no expression).
But the substitution is guarded by `if model_args is not None and len(model_args)`: an EMPTY argument list skips it, so
`allopt()` with `def allopt(n=2.0)` is "translated" to an expression in the bare symbol n -- the default is lost, and a
model component that happens to be called n silently takes its place.

Exits 1 while the expression returned for caller0 differs from the function (free symbol / wrong value), 0 when the
translation is refused or right.  Run:  PYTHONPATH=<repo>/src python findings/c06_empty_call_defaults.py
"""

from __future__ import annotations

import sys

import sympy

from mxlpy.meta.source_tools import fn_to_sympy


def allopt(n: float = 2.0) -> float:
    return n * 3


def caller0(a: float) -> float:
    return a + allopt()


def saturation(s: float, n: float = 2.0) -> float:
    return s**n / (1.0 + s**n)


def hill(s: float, vmax: float) -> float:
    return vmax * saturation(s)


def main() -> int:
    print("hill     ->", fn_to_sympy(hill, origin="finding"), "  (one argument for two parameters: refused by the strict zip)")
    expr = fn_to_sympy(caller0, origin="finding", model_args=[sympy.Symbol("a")])
    print("caller0  ->", expr)
    if expr is None:
        print("translation refused: fine")
        return 0
    free = sorted(str(s) for s in expr.free_symbols if str(s) != "a")
    got = expr.subs({"a": 1.0, "n": 4.0})
    print(f"  free symbols besides the argument: {free};  python caller0(1.0) = {caller0(1.0)},  expression with a model component n = 4.0: {got}")
    return 1 if free or abs(float(got) - caller0(1.0)) > 1e-12 else 0


if __name__ == "__main__":
    sys.exit(main())
