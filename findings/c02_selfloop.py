"""C02: a component naming itself must be rejected with CircularDependencyError (no numbers, no KeyError)."""
from mxlpy import Model
from mxlpy.model import CircularDependencyError
def f(a): return a
m = Model().add_parameter("p", 1.0).add_derived("d", fn=f, args=["d"])
try:
    print(m.get_args())
    raise SystemExit("FAIL: numbers returned for a self-dependent component")
except CircularDependencyError:
    print("OK: CircularDependencyError")
except Exception as e:
    raise SystemExit(f"FAIL: {type(e).__name__}: {e}")
