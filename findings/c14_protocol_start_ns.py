"""C14: simulate_protocol_time_course rounds the time already reached to whole nanoseconds.

The step ends are formed as (TimedeltaIndex + pd.Timedelta(t_start, unit="s")).total_seconds(); when the time reached is
not a whole number of nanoseconds (here 2**-10 s = 976562.5 ns) the step end is no longer t_start + duration, the
requested point t_start + 1.0 -- which lies inside the protocol, it IS its end -- is dropped with the warning
"Ignoring time points outside of protocol range", and the returned axis ends at 1.000976562.

exit 1 on the defect, 0 when repaired (fixes/C14-protocol-start-seconds.diff).
"""

import sys

import numpy as np

from mxlpy import Model, Simulator, fns, make_protocol


def main() -> int:
    m = (
        Model()
        .add_variables({"x": 1.0})
        .add_parameters({"k": 1.0})
        .add_reaction("v", fns.constant, args=["k"], stoichiometry={"x": 1.0})
    )
    s = Simulator(m)
    s.simulate(2.0**-10, steps=1)
    start = 2.0**-10
    s.simulate_protocol_time_course(make_protocol([(1.0, {"k": 2.0})]), np.array([0.5, 1.0]), time_points_as_relative=True)
    idx = [float(t) for t in s.get_result().unwrap_or_err().variables.index]
    want = [0.0, start, start + 0.5, start + 1.0]
    print("returned :", [repr(t) for t in idx])
    print("expected :", [repr(t) for t in want])
    if idx != want:
        print("FAIL: the protocol does not end at start + duration / a requested point inside the protocol is missing")
        return 1
    print("OK")
    return 0


if __name__ == "__main__":
    sys.exit(main())
