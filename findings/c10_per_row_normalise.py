"""C10 defect: per-row normalisation of a multi-segment result returns nothing.

_normalise_split_results' third branch rebinds `results = []` before `for i in results`, so the
loop never runs (and `start += end` would mis-slice if it did).  get_fluxes(normalise=<one factor
per row>) raises 'No objects to concatenate'; with concatenated=False it silently returns [].
Exit 1 while the defect is present, 0 once repaired (fixes/C10-per-row-normalise.diff).

Run: PYTHONPATH=<repo>/src /venv/bin/python findings/c10_per_row_normalise.py
"""
import sys

import pandas as pd

from mxlpy import Model
from mxlpy.simulation import Simulation


def v(x, k):
    return k * x


m = Model().add_variables({"x": 1.0}).add_parameters({"k": 2.0})
m.add_reaction("v", fn=v, args=["x", "k"], stoichiometry={"x": -1})
seg0 = pd.DataFrame({"x": [1.0, 2.0, 3.0]}, index=[0.0, 1.0, 2.0])
seg1 = pd.DataFrame({"x": [4.0, 5.0]}, index=[3.0, 4.0])
res = Simulation(model=m, raw_variables=[seg0, seg1], raw_parameters=[{"k": 2.0}, {"k": 4.0}])
factors = [1.0, 2.0, 4.0, 8.0, 16.0]  # one per row
try:
    got = res.get_fluxes(normalise=factors)["v"].tolist()
except Exception as e:  # noqa: BLE001
    print("DEFECT: per-row normalisation raised", type(e).__name__, e)
    sys.exit(1)
want = [2.0 * 1 / 1, 2.0 * 2 / 2, 2.0 * 3 / 4, 4.0 * 4 / 8, 4.0 * 5 / 16]
print("got ", got, "\nwant", want)
sys.exit(0 if got == want else 1)
