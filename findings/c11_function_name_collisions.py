"""C11 -- generate_mxlpy_code keys the emitted definitions by function __name__ alone.

Three demonstrations on the real code (exit status 1 while any of them fails, 0 when repaired by
fixes/C11-function-name-collisions.diff):

  same-name       moda.rate(a, b) = a*b on (x, k1) and modb.rate(a, b) = a+b on (x, k2): the generated
                  file has ONE `def rate` (the last) -- the rebuilt model silently computes v1 = x+k1
  prefix          parameter p := f_id(x) is emitted as `init_f_id`; a derived quantity uses a function
                  literally NAMED init_f_id (= -a) and replaces that definition -- rebuilt p = -2, not 2
  duplicate-arg   d = f_sub(x, x): generation returns normally, the generated source starts with
                  `def f_sub(x: float, x: float)` -- SyntaxError

run:  PYTHONPATH=<repo>/src NO_COLOR=1 /venv/bin/python findings/c11_function_name_collisions.py
"""

from __future__ import annotations

import importlib
import shutil
import sys
import tempfile
from pathlib import Path

from mxlpy import InitialAssignment, Model
from mxlpy.meta import generate_mxlpy_code

MOD_A = "def rate(a, b):\n    return a * b\n\n\ndef init_f_id(a):\n    return -a\n"
MOD_B = "def rate(a, b):\n    return a + b\n\n\ndef f_id(a):\n    return a\n\n\ndef f_sub(a, b):\n    return a - b\n"


def roundtrip(m: Model) -> Model:
    ns: dict = {}
    exec(compile(generate_mxlpy_code(m), "<generated>", "exec"), ns)  # noqa: S102
    return ns["create_model"]()


def main() -> int:
    d = Path(tempfile.mkdtemp(prefix="c11demo", dir=str(Path(__file__).resolve().parent.parent / "work")))
    try:
        (d / "c11demo_moda.py").write_text(MOD_A)
        (d / "c11demo_modb.py").write_text(MOD_B)
        sys.path.insert(0, str(d))
        moda = importlib.import_module("c11demo_moda")
        modb = importlib.import_module("c11demo_modb")
        bad = 0

        m = (
            Model()
            .add_parameters({"k1": 3.0, "k2": 5.0})
            .add_variable("x", 2.0)
            .add_reaction("v1", fn=moda.rate, args=["x", "k1"], stoichiometry={"x": -1})
            .add_reaction("v2", fn=modb.rate, args=["x", "k2"], stoichiometry={"x": 1})
        )
        want = dict(m.get_fluxes({"x": 2.0}))
        got = dict(roundtrip(m).get_fluxes({"x": 2.0}))
        print("same-name     source fluxes", want, "rebuilt", got)
        bad += want != got

        m = (
            Model()
            .add_variable("x", 2.0)
            .add_parameter("p", InitialAssignment(fn=modb.f_id, args=["x"]))
            .add_derived("d", fn=moda.init_f_id, args=["x"])
        )
        want = dict(m.get_args({"x": 2.0}))
        got = dict(roundtrip(m).get_args({"x": 2.0}))
        print("prefix        source args", want, "rebuilt", got)
        bad += want != got

        m = Model().add_variable("x", 2.0).add_parameter("k", 3.0).add_derived("d", fn=modb.f_sub, args=["x", "x"])
        try:
            got = dict(roundtrip(m).get_args({"x": 5.0}))
            want = dict(m.get_args({"x": 5.0}))
            print("duplicate-arg source args", want, "rebuilt", got)
            bad += want != got
        except SyntaxError as e:
            print("duplicate-arg generation succeeded, the generated source does not compile:", e)
            bad += 1
        return 1 if bad else 0
    finally:
        shutil.rmtree(d, ignore_errors=True)


if __name__ == "__main__":
    sys.exit(main())
