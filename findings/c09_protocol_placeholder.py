"""C09 defect: the NaN placeholder a protocol scan returns for a failing row is one row short and on
a different time grid: np.linspace(0, T, n*steps) (n*steps points) where a successful run has t=0
plus `steps` points per protocol step (n*steps+1 points).  Exits 1 while present, 0 when repaired
(fixes/C09-protocol-placeholder-axis.diff).

run:  PYTHONPATH=<repo>/src:/verif /venv/bin/python findings/c09_protocol_placeholder.py"""
import sys

from harness import c09_fns as F
from harness.c09_integ import ExactEuler
from mxlpy import Model, make_protocol
from mxlpy.scan import _protocol_worker


def model(x0):
    m = Model()
    m.add_variable("x", x0)
    m.add_parameter("q", 1.0)
    m.add_reaction("v", fn=F.g_sq, args=["x"], stoichiometry={"x": 1.0})  # x' = x^2
    return m


proto = make_protocol([(4.0, {"q": 1.0}), (4.0, {"q": 2.0})])
ok = _protocol_worker(model(0.0), proto, integrator=ExactEuler, y0=None, time_points_per_step=2).variables
bad = _protocol_worker(model(100.0), proto, integrator=ExactEuler, y0=None, time_points_per_step=2).variables  # leaves the range
print("successful row:", ok.index.tolist(), "\nfailing row   :", bad.index.tolist())
sys.exit(0 if ok.index.tolist() == bad.index.tolist() and bad.isna().all().all() else 1)
