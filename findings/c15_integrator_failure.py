"""C15: Scipy.integrate_to_steady_state never looks at integ.successful() after integ.integrate(t).
When the solver fails (finite-time blow-up, singular rate law) it warns, stays where it got stuck and
returns that state again on every later call; the change between two such calls is 0 and the loop
reports the stuck state as a STEADY STATE (success) instead of a failure value.

  dx/dt = x^2, x(0) = 1   has the solution 1/(1-t): nothing exists beyond t = 1, yet
  simulate_to_steady_state() returns success with x = 1.34e154 at t = 1200 (flux 1.8e308);
  dx/dt = 1/(1-x), x(0) = 0.5 stops existing at t = 0.125, reported "steady" at t = 200, x = 1 (flux -4.7e7).

Exits 0 when both are reported as failure values (fixes/C15-integrator-failure.diff), non-zero otherwise.
Run:  PYTHONPATH=<repo>/src python findings/c15_integrator_failure.py"""
import warnings

import numpy as np

from mxlpy import Model, Simulator

warnings.filterwarnings("ignore")


def quad(x, k):
    return k * x * x


def recip(x, k):
    return k / (1.0 - x)


def stable(x, k):
    return k * (2.0 - x)


bad = []
for name, fn, x0 in (("dx/dt = x^2", quad, 1.0), ("dx/dt = 1/(1-x)", recip, 0.5)):
    for rel_norm in (False, True):
        m = Model().add_variable("x", x0).add_parameter("k", 1.0).add_reaction("v", fn=fn, args=["x", "k"], stoichiometry={"x": 1})
        with np.errstate(all="ignore"):
            val = Simulator(m).simulate_to_steady_state(rel_norm=rel_norm).get_result().value
        if isinstance(val, Exception):
            print(f"ok   {name}, rel_norm={rel_norm}: failure value {type(val).__name__}")
        else:
            v = val.variables
            print(f"FAIL {name}, rel_norm={rel_norm}: SUCCESS, 'steady' x={v.iloc[-1, 0]:.6g} at t={v.index[-1]}, flux {val.fluxes.iloc[-1, 0]:.3g}")
            bad.append(name)
# control: a model with a steady state still succeeds
m = Model().add_variable("x", 0.5).add_parameter("k", 1.0).add_reaction("v", fn=stable, args=["x", "k"], stoichiometry={"x": 1})
val = Simulator(m).simulate_to_steady_state().get_result().value
if isinstance(val, Exception) or abs(val.variables.iloc[-1, 0] - 2.0) > 1e-4:
    print("FAIL control: dx/dt = 2 - x must reach x = 2")
    bad.append("control")
else:
    print("ok   control: dx/dt = 2 - x reaches x = 2")
raise SystemExit(1 if bad else 0)
