"""C07 defect: a variable that no reaction acts on is dropped from the list the generated function
returns (ret_order = [i for i in variables if i in diff_eqs]): 2 values for 3 variables, the later
ones shifted to the wrong position; in Rust the declared return type [f64; 3] no longer matches.
The model itself returns a zero for such a variable.

Run:  PYTHONPATH=<repo>/src python findings/c07_untouched_variable.py
exit 1 = defect present, exit 0 = repaired (fixes/C07-untouched-variable-zero.diff)."""

import logging
import sys

logging.disable(logging.CRITICAL)

from mxlpy import Model, fns  # noqa: E402
from mxlpy.meta import generate_model_code_py, generate_model_code_rs  # noqa: E402

m = Model()
m.add_variables({"x1": 2.0, "x2": 5.0, "x3": 1.0})  # nothing acts on x2
m.add_parameters({"k1": 3.0})
m.add_reaction("v1", fn=fns.mass_action_1s, args=["x1", "k1"], stoichiometry={"x1": -1.0, "x3": 1.0})
expected = [float(v) for v in m(0.0, [2.0, 5.0, 1.0])]
text = generate_model_code_py(m)
print(text)
ns: dict = {}
exec(text, ns)  # noqa: S102
got = [float(v) for v in ns["model"](0.0, [2.0, 5.0, 1.0])]
print("model:", expected, "generated:", got)
bad = 0
if got != expected:
    print(f"DEFECT: {len(got)} values for 3 variables" if len(got) != 3 else "DEFECT: the values differ")
    bad = 1
rs = generate_model_code_rs(m)
n_ret = len(rs.split("return [")[1].split("]")[0].split(","))
if "[f64; 3]" in rs and n_ret != 3:
    print(f"DEFECT: the Rust function is declared -> [f64; 3] and returns {n_ret} values")
    bad = 1
sys.exit(bad)
