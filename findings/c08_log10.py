"""C08 defect: log10(x) is exported as a <log/> node with a single child.

UNARY maps "log10" to libsbml.AST_FUNCTION_LOG and the table-driven call adds the argument as the only
child.  libSBML's AST for log needs (base, x): the one-child node is not well-formed, setMath() returns
an error code that the exporter ignores, and the kinetic law / assignment rule is written without any
math (a bare node is written as <apply><log/></apply>, i.e. log()).  sbml.write succeeds; sbml.read
dies (AttributeError in pysbml) or the derived quantity is silently missing.
Exit 1 while the defect is present, 0 once repaired (fixes/C08-log10-base.diff).

Run: PYTHONPATH=<repo>/src /venv/bin/python findings/c08_log10.py
"""
import math
import sys
import tempfile
from pathlib import Path

import numpy as np

from mxlpy import Model, sbml


def rate(x, k):
    return k * np.log10(x + 1)


m = Model().add_variables({"x": 9.0}).add_parameters({"k": 2.0})
m.add_reaction("v", fn=rate, args=["x", "k"], stoichiometry={"x": -1})
with tempfile.TemporaryDirectory(dir=Path(__file__).resolve().parent) as d:
    f = Path(d) / "c08_log10.xml"
    sbml.write(m, f)
    text = f.read_text()
    has_math = "<log/>" in text and "<logbase>" in text
    try:
        m2 = sbml.read(f)
        got = float(m2.get_right_hand_side()["x"])
    except Exception as e:  # noqa: BLE001
        print("DEFECT: the written file cannot be imported:", type(e).__name__, e, "| kinetic law has math:", has_math)
        sys.exit(1)
    finally:
        (Path.home() / ".cache" / "mxlpy" / f"mb_{f.stem}.py").unlink(missing_ok=True)
want = -2.0 * math.log10(10.0)
print("dx/dt after export+import:", got, "want", want)
sys.exit(0 if abs(got - want) < 1e-12 else 1)
